"""Builds of the conformance replayers from the CURRENT working tree of the repository.

Objects are cached under /verif/.cache/build/<key>/, key = content hash of the repository headers, the harness
sources and the flags - an edited tree is always rebuilt, an unchanged one is not."""
import hashlib, os, subprocess, sys, glob, shutil, time
from concurrent.futures import ThreadPoolExecutor

VERIF = os.path.dirname(os.path.dirname(os.path.abspath(__file__)))
REPO = os.environ.get("VERIF_REPO", "/repo")
CACHE = os.path.join(VERIF, ".cache")
HARNESS = os.path.join(VERIF, "harness")
CXX = os.environ.get("VERIF_CXX", "g++")
# -ffp-contract=off and no -ffast-math: bit-identity is only ever demanded between observations of one such binary
BASEFLAGS = ["-std=c++17", "-O2", "-ffp-contract=off", "-I" + os.path.join(REPO, "include"), "-I/usr/include/eigen3", "-I" + HARNESS]
JOBS = int(os.environ.get("VERIF_JOBS", "16"))


def _hash(paths, extra=""):
    h = hashlib.sha256()
    for p in sorted(paths):
        h.update(p.encode())
        with open(p, "rb") as f:
            h.update(f.read())
    h.update(extra.encode())
    return h.hexdigest()[:20]


def repo_headers():
    return sorted(glob.glob(os.path.join(REPO, "include", "*.hpp")))


def _cc(args):
    src, obj, flags = args
    if os.path.exists(obj):
        return (obj, 0, "")
    tmp = obj + ".tmp%d" % os.getpid()
    p = subprocess.run([CXX] + flags + ["-c", src, "-o", tmp], capture_output=True, text=True)
    if p.returncode == 0:
        os.replace(tmp, obj)
    return (obj, p.returncode, p.stderr[-4000:])


def build(name, units, main_src, extra_flags=(), link_flags=()):
    """units: list of (source, tag, defines); returns path of the linked binary (built if absent)"""
    flags = BASEFLAGS + list(extra_flags)
    srcs = set([main_src] + [u[0] for u in units] + glob.glob(os.path.join(HARNESS, "*.hpp")))
    key = _hash(list(srcs) + repo_headers(), " ".join(flags + list(link_flags)) + name + repr(sorted((u[1], u[2]) for u in units)))
    d = os.path.join(CACHE, "build", name + "-" + key)
    exe = os.path.join(d, name)
    if os.path.exists(exe):
        return exe
    os.makedirs(d, exist_ok=True)
    jobs = [(main_src, os.path.join(d, "main.o"), flags)]
    for (src, tag, defs) in units:
        jobs.append((src, os.path.join(d, tag + ".o"), flags + list(defs)))
    t0 = time.time()
    with ThreadPoolExecutor(max_workers=JOBS) as ex:
        res = list(ex.map(_cc, jobs))
    bad = [r for r in res if r[1] != 0]
    if bad:
        sys.stderr.write("BUILD FAILED (%s):\n%s\n" % (name, bad[0][2]))
        raise SystemExit(3)
    p = subprocess.run([CXX] + [r[0] for r in res] + ["-o", exe + ".tmp"] + list(link_flags) + ["-pthread"], capture_output=True, text=True)
    if p.returncode != 0:
        sys.stderr.write("LINK FAILED (%s):\n%s\n" % (name, p.stderr[-4000:]))
        raise SystemExit(3)
    os.replace(exe + ".tmp", exe)
    sys.stderr.write("[build] %s: %d units in %.1fs -> %s\n" % (name, len(jobs), time.time() - t0, d))
    prune(name, keep=d)
    return exe


def prune(name, keep):
    """keep disk use bounded: at most 3 cached builds per binary name"""
    ds = sorted(glob.glob(os.path.join(CACHE, "build", name + "-*")), key=os.path.getmtime)
    for d in ds[:-2]:
        if d != keep:
            shutil.rmtree(d, ignore_errors=True)


def spline_replay(orders=(3, 5, 7), dims=range(1, 11)):
    # always all 30 instantiations: the factory in spline_main.cpp references every one
    units = [(os.path.join(HARNESS, "spline_box.cpp"), "box_%d_%d" % (o, d), ["-DSP_ORDER=%d" % o, "-DSP_DIM=%d" % d])
             for o in (3, 5, 7) for d in range(1, 11)]
    return build("spline_replay", units, os.path.join(HARNESS, "spline_main.cpp"))


def ppoly_replay():
    units = []
    for d in (1, 2, 3, 4):
        for o in (-1, 4, 6, 8, 12):
            units.append((os.path.join(HARNESS, "ppoly_box.cpp"), "pbox_%d_%s" % (d, "dyn" if o < 0 else o), ["-DPP_DIM=%d" % d, "-DPP_ORD=%d" % o]))
    return build("ppoly_replay", units, os.path.join(HARNESS, "ppoly_main.cpp"))


def java_classes():
    out = os.path.join(CACHE, "classes")
    srcs = glob.glob(os.path.join(VERIF, "overrides", "tlc2", "overrides", "*.java"))
    stamp = os.path.join(out, ".stamp-" + _hash(srcs))
    if os.path.exists(stamp):
        return out
    shutil.rmtree(out, ignore_errors=True)
    os.makedirs(out, exist_ok=True)
    p = subprocess.run(["javac", "-cp", "/opt/veriftools/tla/tla2tools.jar", "-d", out] + srcs, capture_output=True, text=True)
    if p.returncode != 0:
        sys.stderr.write("javac failed:\n" + p.stderr)
        raise SystemExit(3)
    open(stamp, "w").close()
    return out


if __name__ == "__main__":
    java_classes()
    print(spline_replay())


def timemap_replay():
    return build("timemap_replay", [], os.path.join(HARNESS, "timemap_main.cpp"))


def opt_replay(extra_flags=(), link_flags=(), name="opt_replay"):
    units = []
    for o in (3, 5, 7):
        for d in (1, 2, 3, 4):
            for v in (0, 1, 2, 3):
                units.append((os.path.join(HARNESS, "opt_box.cpp"), "obox_%d_%d_%d" % (o, d, v), ["-DOP_ORDER=%d" % o, "-DOP_DIM=%d" % d, "-DOP_VARIANT=%d" % v]))
    return build(name, units, os.path.join(HARNESS, "opt_main.cpp"), extra_flags=extra_flags, link_flags=link_flags)


def repo_test_with_hooks(test_src_name):
    """the repository's own test program, unmodified, built with the verification guard ON and the trace sink force-included"""
    src = os.path.join(REPO, test_src_name)
    sink = os.path.join(HARNESS, "trace_sink.hpp")
    flags = ["-std=c++17", "-O2", "-ffp-contract=off", "-DSPLINETRAJECTORY_VERIF", "-I" + os.path.join(REPO, "include"),
             "-I" + os.path.join(REPO, "include", "large_scale_traj_optimizer"), "-I" + REPO, "-I/usr/include/eigen3", "-I" + HARNESS, "-include", sink]
    key = _hash([src, sink, os.path.join(HARNESS, "hx.hpp")] + repo_headers() + glob.glob(os.path.join(REPO, "include", "**", "*.h*"), recursive=True), " ".join(flags))
    d = os.path.join(CACHE, "build", "repotest-" + test_src_name.replace(".cpp", "") + "-" + key)
    exe = os.path.join(d, "test")
    if os.path.exists(exe):
        return exe
    os.makedirs(d, exist_ok=True)
    p = subprocess.run([CXX] + flags + [src, "-o", exe + ".tmp", "-pthread"], capture_output=True, text=True)
    if p.returncode != 0:
        sys.stderr.write("BUILD FAILED (%s with hooks):\n%s\n" % (test_src_name, p.stderr[-3000:]))
        raise SystemExit(3)
    os.replace(exe + ".tmp", exe)
    prune("repotest-" + test_src_name.replace(".cpp", ""), keep=d)
    return exe
