"""Per-property plans: which design modules TLC explores, which behaviours are generated and replayed on the real
classes, which trace specification judges the recordings, and how the result is reported."""
import json, os, subprocess, sys, math
import vbuild, gen
from vcheck import run_mc, replay_and_validate, validate_trace, finish, Ctx

TRUSTED = ["TLC 1.8.0 / tla2tools.jar", "overrides/RatOverrides.java (BigInteger rationals; self-tested by spec/SelfTestRat.tla)",
           "harness replayer recording code", "g++ 12 -O2 -ffp-contract=off (no -ffast-math), Eigen 3.4"]


def balanced(execs, nb):
    """execs: list of (cost, cmds); greedy split into nb batches of similar cost"""
    nb = max(1, min(nb, len(execs)))
    bins = [[0.0, []] for _ in range(nb)]
    for cost, cmds in sorted(execs, key=lambda e: -e[0]):
        b = min(bins, key=lambda x: x[0])
        b[0] += cost
        b[1].extend(cmds)
    return [b[1] for b in bins if b[1]]


def selftest_rat(ctx):
    r = run_mc(ctx, "SelfTestRat", "SelfTestRat.cfg", workers=1, timeout=300, heap="2g")
    if r["violated"] or not r["completed"]:
        ctx.infra.append("Rat override self-test failed")
    # not part of the property's state count
    ctx.mc.remove(r)
    ctx.notes.append("SelfTestRat passed")


def mc_splinemath(ctx):
    cfg = "MCSplineMath_quick.cfg" if ctx.quick() else "MCSplineMath_thorough.cfg"
    return run_mc(ctx, "MCSplineMath", cfg, workers=16, timeout=3000, heap="12g")


def bcar_for(order, r):
    return r.choice({3: [2, 6, 0, 9], 5: [4, 6, 2, 9], 7: [6, 6, 4, 9]}[order])   # 9 = plain field assignment


# ------------------------------------------------------------------ spline family: build-centred properties
def spline_build_execs(ctx, r, nrep, tdom="W", with_knots=True, with_energy=True, pair=True, dims=range(1, 11), ns=range(1, 11)):
    """structure-exhaustive: every order x dimension x N, both constructors and both update overloads"""
    hows = ["ctor_durs", "ctor_pts", "upd_durs", "upd_pts"]
    other = {"ctor_durs": "upd_pts", "ctor_pts": "upd_durs", "upd_durs": "ctor_pts", "upd_pts": "ctor_durs"}
    execs = []
    k = 0
    for rep in range(nrep):
        for order in gen.ORDERS:
            for dim in dims:
                for n in ns:
                    k += 1
                    pr = r.problem(order, dim, n, tdom=tdom)
                    how = hows[(k + rep) % 4]
                    ar = bcar_for(order, r)
                    cmds = [{"op": "reset"}, gen.build_cmd(1, pr, how, ar)]
                    if with_knots:
                        cmds.append({"op": "knots", "obj": 1})
                    if with_energy:
                        cmds.append({"op": "energy", "obj": 1})
                    cmds.append({"op": "state", "obj": 1})
                    if pair:
                        cmds.append(gen.build_cmd(2, pr, other[how], ar))
                        cmds.append({"op": "note", "what": "same", "a": 1, "b": 2})
                    s = (order + 1) // 2
                    execs.append((n * dim * s * (2 if pair else 1) + 5, cmds))
    return execs


def sample_of(batches, k=3):
    out = []
    for b in batches[:k]:
        for c in b:
            if c.get("op") == "build":
                out.append({"op": "build", "order": c["order"], "dim": c["dim"], "how": c["how"], "bcar": c.get("bcar"),
                            "T": c.get("T", c.get("tp")), "P_first_row": c["P"][0]})
                break
    return out


def plan_spline_build(ctx, props, env, nrep_quick, nrep_thorough, tdom="W", extra_execs=None, mc=True, rule="", level="model_checking"):
    selftest_rat(ctx)
    if mc:
        mc_splinemath(ctx)
    exe = vbuild.spline_replay()
    r = gen.Rng(ctx.seed * 1000003 + hash(ctx.prop) % 1000)
    r = gen.Rng(ctx.seed * 1000003 + sum(map(ord, ctx.prop)))
    execs = spline_build_execs(ctx, r, nrep_quick if ctx.quick() else nrep_thorough, tdom=tdom)
    if extra_execs:
        execs += extra_execs(ctx, r)
    batches = balanced(execs, 32 if ctx.quick() else 96)
    ctx.family, ctx.tracespec, ctx.env_flags = "spline", "TraceSpline", env
    ctx.samples = sample_of(batches)
    replay_and_validate(ctx, exe, batches, "TraceSpline", env)
    return finish(ctx, level, rule, TRUSTED,
                  ["durations in the domain stated by the property (DESIGN s4); data finite",
                   "exact judging of logged bits; tolerances of DESIGN s4",
                   "the design-level theorems are checked on a finite grid (MCSplineMath cfg)"],
                  props_judged=props)


def plan_C01(ctx):
    return plan_spline_build(ctx, {"C01"}, {}, 1, 12,
                             rule="every order x dimension 1..10 x N 1..10, the four construction/update overloads cycled, "
                                  "boundary-condition constructor arity varied, data classes grid/real/2^40-scaled, start-time classes; "
                                  "one execution = build + knot evaluations (global and per-segment routes) + paired build through the "
                                  "other time overload + comparison; non-trivial = distinct (order,dim,N,overload,data) executions validated")


def plan_C02(ctx):
    return plan_spline_build(ctx, {"C02"}, {"VJ_MIN": "1"}, 1, 8,
                             rule="as C01; every build in W with at most 40 unknowns is additionally compared coefficient-wise with "
                                  "the exact dense solve of the optimality conditions (SplineMath!MinCoeffs); continuity residuals of "
                                  "derivatives 1..2s-2 at every interior knot are evaluated exactly on the logged bits")


def plan_C04(ctx):
    def extra(ctx, r):
        # any positive durations (ratios up to 1e6): the energy is a closed form of the published coefficients
        return spline_build_execs(ctx, r, 1 if ctx.quick() else 6, tdom="any", with_knots=False, pair=False)
    return plan_spline_build(ctx, {"C04"}, {}, 1, 6, extra_execs=extra,
                             rule="every order x dimension x N; durations in W and arbitrary positive durations (ratio up to 1e6); "
                                  "getEnergy() against the exact integral of the squared s-th derivative of the published polynomials")


# ------------------------------------------------------------------ C18: accuracy over the accepted range of durations
C18_RATIOS = (2, 5, 10, 20, 30, 50, 70, 100)
C18_PATTERNS = ("one_short", "one_long", "alternating", "logmix")


def c18_durations(pattern, n, ratio, pos):
    """durations are multiples of 1/16 so that max/min is EXACTLY the ratio"""
    lo, hi = 0.0625, 0.0625 * ratio
    if pattern == "one_short":
        T = [hi] * n
        T[pos % n] = lo
    elif pattern == "one_long":
        T = [lo] * n
        T[pos % n] = hi
    elif pattern == "alternating":
        T = [lo if i % 2 == 0 else hi for i in range(n)]
    else:
        T = [0.0625 * max(1, min(ratio, round(ratio ** (i / max(1, n - 1))))) for i in range(n)]
        T[0], T[-1] = lo, hi
    return T


def c18_corpus():
    import zlib
    out = []
    for order in gen.ORDERS:
        for n in range(2, 9):
            for pat in C18_PATTERNS:
                for ratio in C18_RATIOS:
                    cid = "c18/o%d/N%d/%s/r%d" % (order, n, pat, ratio)
                    r = gen.Rng(zlib.crc32(cid.encode()))       # seed-independent: the corpus is canonical
                    T = c18_durations(pat, n, ratio, r.randrange(n))
                    pr = r.problem(order, 2, n, tdom=T, dcls=r.choice(["grid", "real"]), t0=0.0)
                    cmds = [{"op": "reset"}, {"op": "note", "case": cid}, gen.build_cmd(1, pr, "ctor_durs", 6)]
                    out.append((n * 2 * (order + 1) // 2 + 5, cmds))
    return out


def c18_random(r, count):
    out = []
    for k in range(count):
        order = gen.ORDERS[k % 3]
        n = 2 + (k // 3) % 9
        ratio = r.choice([3, 8, 15, 25, 40, 60, 80, 100])
        s0 = 2.0 ** r.randint(-6, 3)
        T = [s0 * r.randint(16, 16 * ratio) / 16.0 for _ in range(n)]
        pr = r.problem(order, r.choice([1, 2, 3, 4]), n, tdom=T, dcls=r.choice(["grid", "real", "big"]))
        cmds = [{"op": "reset"}, {"op": "note", "case": "rnd/%d" % k}, gen.build_cmd(1, pr, r.choice(["ctor_durs", "upd_durs"]), 6)]
        out.append((n * pr["dim"] * (order + 1) // 2 + 5, cmds))
    return out


def plan_C18(ctx):
    selftest_rat(ctx)
    exe = vbuild.spline_replay()
    r = gen.Rng(ctx.seed * 1000003 + 18)
    execs = c18_corpus() + c18_random(r, 828 if ctx.quick() else 39000)
    batches = balanced(execs, 32 if ctx.quick() else 128)
    ctx.family, ctx.tracespec, ctx.env_flags = "spline", "TraceSpline", {}
    ctx.samples = sample_of(batches)
    replay_and_validate(ctx, exe, batches, "TraceSpline", {})
    return finish(ctx, "exploration",
                  "canonical seed-independent corpus (3 orders x N 2..8 x 4 placement patterns x 8 ratios up to 100) plus seeded random "
                  "duration vectors of domain A (N 2..10, every T >= 1 ms, max/min <= 100); every defining-equation residual evaluated "
                  "exactly on the logged coefficient bits, tolerance 1e-3; non-trivial = distinct duration vectors judged",
                  TRUSTED, ["domain A of DESIGN s4", "rounding is judged exactly, not predicted: level exploration"],
                  props_judged={"C18"})


PLANS = {"C01": plan_C01, "C02": plan_C02, "C04": plan_C04, "C18": plan_C18}


def replay(prop, path, seed):
    """re-execute one replay file and re-validate it"""
    lines = [json.loads(l) for l in open(path)]
    head = lines[0] if lines and lines[0].get("op") == "note" and "replay_of" in lines[0] else {}
    cmds = lines[1:] if head else lines
    ctx = Ctx(prop or head.get("replay_of", "C00"), "quick", seed)
    fam = head.get("family", "spline")
    ctx.family, ctx.tracespec, ctx.env_flags = fam, head.get("tracespec", "TraceSpline"), head.get("env", {})
    exe = {"spline": vbuild.spline_replay}[fam]()
    replay_and_validate(ctx, exe, [cmds], ctx.tracespec, ctx.env_flags, label="r")
    for d in ctx.devs:
        print("DEVIATION prop=%s code=%s info=%s" % (d["prop"], d["code"], json.dumps(d.get("info"))))
    print("replay: %d deviations" % len(ctx.devs))
    ctx.cleanup()
    return 1 if [d for d in ctx.devs if d["prop"] == ctx.prop] else 0
