"""Per-property plans: which design modules TLC explores, which behaviours are generated and replayed on the real
classes, which trace specification judges the recordings, and how the result is reported."""
import json, os, subprocess, sys, math
import vbuild, gen
from vcheck import run_mc, replay_and_validate, validate_trace, finish, Ctx

TRUSTED = ["TLC 1.8.0 / tla2tools.jar", "overrides/RatOverrides.java (BigInteger rationals; self-tested by spec/SelfTestRat.tla)",
           "harness replayer recording code", "g++ 12 -O2 -ffp-contract=off (no -ffast-math), Eigen 3.4"]


def balanced(execs, nb):
    """execs: list of (cost, cmds); greedy split into nb batches of similar cost"""
    nb = max(1, min(nb, len(execs)))
    bins = [[0.0, []] for _ in range(nb)]
    for cost, cmds in sorted(execs, key=lambda e: -e[0]):
        b = min(bins, key=lambda x: x[0])
        b[0] += cost
        b[1].extend(cmds)
    return [b[1] for b in bins if b[1]]


def selftest_rat(ctx):
    r = run_mc(ctx, "SelfTestRat", "SelfTestRat.cfg", workers=1, timeout=300, heap="2g")
    if r["violated"] or not r["completed"]:
        ctx.infra.append("Rat override self-test failed")
    # not part of the property's state count
    ctx.mc.remove(r)
    ctx.notes.append("SelfTestRat passed")


def mc_splinemath(ctx):
    cfg = "MCSplineMath_quick.cfg" if ctx.quick() else "MCSplineMath_thorough.cfg"
    return run_mc(ctx, "MCSplineMath", cfg, workers=12, timeout=3000, heap="8g", coverage=False)


def bcar_for(order, r):
    return r.choice({3: [2, 6, 0, 9], 5: [4, 6, 2, 9], 7: [6, 6, 4, 9]}[order])   # 9 = plain field assignment


# ------------------------------------------------------------------ spline family: build-centred properties
def spline_build_execs(ctx, r, nrep, tdom="W", with_knots=True, with_energy=True, pair=True, dims=range(1, 11), ns=range(1, 11), big=True):
    """structure-exhaustive: every order x dimension x N, both constructors and both update overloads"""
    hows = ["ctor_durs", "ctor_pts", "upd_durs", "upd_pts"]
    other = {"ctor_durs": "upd_pts", "ctor_pts": "upd_durs", "upd_durs": "ctor_pts", "upd_pts": "ctor_durs"}
    execs = []
    k = 0
    for rep in range(nrep):
        for order in gen.ORDERS:
            for dim in dims:
                for n in ns:
                    k += 1
                    pr = r.problem(order, dim, n, tdom=tdom)
                    how = hows[(k + rep) % 4]
                    ar = bcar_for(order, r)
                    cmds = [{"op": "reset"}, gen.build_cmd(1, pr, how, ar)]
                    if with_knots:
                        cmds.append({"op": "knots", "obj": 1})
                    if with_energy:
                        cmds.append({"op": "energy", "obj": 1})
                    cmds.append({"op": "state", "obj": 1})
                    if pair:
                        cmds.append(gen.build_cmd(2, pr, other[how], ar))
                        cmds.append({"op": "note", "what": "same", "a": 1, "b": 2})
                    s = (order + 1) // 2
                    execs.append((n * dim * s * (2 if pair else 1) + 5, cmds))
    # one object: built, read through its trajectory, updated with other data of the same or another size, read again (judged exactly
    # each time: the trajectory hands out the LATEST interpolant)
    for rep in range(nrep):
        for order in gen.ORDERS:
            for dim in (1, 2, 3, 4):
                for (n1, n2) in ((1, 1), (2, 2), (4, 4), (3, 5), (5, 2)):
                    k += 1
                    cmds = [{"op": "reset"}]
                    for stage, n in enumerate((n1, n2, n1)):
                        pr = r.problem(order, dim, n, tdom=tdom)
                        how = hows[(k + stage) % 2] if stage == 0 else hows[2 + (k + stage) % 2]
                        cmds.append(gen.build_cmd(1, pr, how, bcar_for(order, r)))
                        if with_knots:
                            cmds.append({"op": "knots", "obj": 1, "desc": bool((k + stage) % 2)})
                        cmds.append({"op": "eval", "obj": 1, "t": gen.hx(pr["t0"] + 0.61 * sum(pr["T"])), "d": stage % 3})
                        if with_energy:
                            cmds.append({"op": "energy", "obj": 1})
                    cmds.append({"op": "state", "obj": 1})
                    execs.append((3 * max(n1, n2) * dim * ((order + 1) // 2) + 5, cmds))
    # problems of W scaled uniformly in time by large powers of two (milliseconds ... hours; boundary derivatives rescaled so that it is
    # the same curve): the well-scaled domain of the properties bounds the RATIO of durations, not their overall size
    for rep in range(nrep):
        for order in gen.ORDERS:
            for dim in (1, 2, 4, 5):
                for n in (1, 2, 3, 5):
                    k += 1
                    f = 2.0 ** (-9, -6, 6, 9, 11, 14)[(k + rep) % 6]
                    pr = r.problem(order, dim, n, tdom=tdom)
                    pr = dict(pr); pr["T"] = [t * f for t in pr["T"]]
                    pr["bc"] = {kk: [x / f ** {"v": 1, "a": 2, "j": 3}[kk[1]] for x in vv] for kk, vv in pr["bc"].items()}
                    how = hows[(k + rep) % 4]
                    cmds = [{"op": "reset"}, gen.build_cmd(1, pr, how, 6)]
                    if with_knots:
                        cmds.append({"op": "knots", "obj": 1})
                    if with_energy:
                        cmds.append({"op": "energy", "obj": 1})
                    cmds.append({"op": "state", "obj": 1})
                    execs.append((n * dim * ((order + 1) // 2) + 5, cmds))
    # long splines (beyond the sizes of the exact dense solve): judged by the exact residuals of the defining equations, exact energy and
    # bookkeeping; sizes around powers of two and the lookup threshold 32
    if big:
        bigns = (12, 16, 31, 32, 33, 64, 100, 257)
        for rep in range(nrep):
            for order in gen.ORDERS:
                for dim in (1, 2, 3, 4, 5, 8):
                    for j in range(3 if ctx.quick() else 8):
                        k += 1
                        n = bigns[(k + rep) % len(bigns)]
                        pr = r.problem(order, dim, n, tdom=tdom)
                        how = hows[(k + rep) % 4]
                        ar = bcar_for(order, r)
                        cmds = [{"op": "reset"}, gen.build_cmd(1, pr, how, ar)]
                        if with_knots:
                            cmds.append({"op": "knots", "obj": 1})
                        if with_energy:
                            cmds.append({"op": "energy", "obj": 1})
                        cmds.append({"op": "state", "obj": 1})
                        if pair:
                            cmds.append(gen.build_cmd(2, pr, other[how], ar))
                            cmds.append({"op": "note", "what": "same", "a": 1, "b": 2})
                        execs.append((n * dim * ((order + 1) // 2) * (2 if pair else 1) + 5, cmds))
    return execs


def sample_of(batches, k=3):
    out = []
    for b in batches[:k]:
        for c in b:
            if c.get("op") == "build":
                out.append({"op": "build", "order": c["order"], "dim": c["dim"], "how": c["how"], "bcar": c.get("bcar"),
                            "T": c.get("T", c.get("tp")), "P_first_row": c["P"][0]})
                break
    return out


def plan_spline_build(ctx, props, env, nrep_quick, nrep_thorough, tdom="W", extra_execs=None, mc=True, rule="", level="model_checking", repo_tests=()):
    selftest_rat(ctx)
    if mc:
        mc_splinemath(ctx)
    if repo_tests:
        repo_test_traces(ctx, repo_tests)
    exe = vbuild.spline_replay()
    r = gen.Rng(ctx.seed * 1000003 + hash(ctx.prop) % 1000)
    r = gen.Rng(ctx.seed * 1000003 + sum(map(ord, ctx.prop)))
    execs = spline_build_execs(ctx, r, nrep_quick if ctx.quick() else nrep_thorough, tdom=tdom)
    if extra_execs:
        execs += extra_execs(ctx, r)
    batches = balanced(execs, 32 if ctx.quick() else 96) + regress_batch("spline", env)
    ctx.family, ctx.tracespec, ctx.env_flags = "spline", "TraceSpline", env
    ctx.samples = sample_of(batches)
    replay_and_validate(ctx, exe, batches, "TraceSpline", env)
    return finish(ctx, level, rule, TRUSTED,
                  ["durations in the domain stated by the property (DESIGN s4); data finite",
                   "exact judging of logged bits; tolerances of DESIGN s4",
                   "the design-level theorems are checked on a finite grid (MCSplineMath cfg)"],
                  props_judged=props)


def repo_test_traces(ctx, tests, first=40, every=8000):
    """code -> spec on executions the verification did not write: the repository's own test programs, unmodified, built with the
    guarded build-observer hook, record every spline build they perform (rate limited); TLC validates the recordings"""
    from concurrent.futures import ThreadPoolExecutor

    def one(t):
        exe = vbuild.repo_test_with_hooks(t)
        out = os.path.join(ctx.work, "repo-" + t.replace(".cpp", "") + ".trace.ndjson")
        env = dict(os.environ)
        env.update({"VERIF_TRACE_OUT": out, "VERIF_TRACE_FIRST": str(first), "VERIF_TRACE_EVERY": str(every)})
        try:
            subprocess.run([exe], cwd=ctx.work, env=env, stdout=subprocess.DEVNULL, stderr=subprocess.DEVNULL, timeout=1200)
        except subprocess.TimeoutExpired:
            return (t, None)
        return (t, out)
    with ThreadPoolExecutor(max_workers=4) as ex:
        res = list(ex.map(one, tests))
    env = {"VJ_MIN": "1"}
    for (t, out) in res:
        if not out or not os.path.exists(out) or os.path.getsize(out) == 0:
            ctx.infra.append("the repository test %s built with hooks produced no trace" % t)
            continue
        r = validate_trace(ctx, "TraceSpline", out, out + ".out.json", env, 1700, "6g")
        if "infra" in r:
            ctx.infra.append(r["infra"])
            continue
        n = r["stats"].get("executions", 0)
        ctx.traces += n
        ctx.stats["repo_test_builds_validated"] = ctx.stats.get("repo_test_builds_validated", 0) + n
        for k, v in r["stats"].items():
            if isinstance(v, int):
                ctx.stats[k] = ctx.stats.get(k, 0) + v
        for k, v in (r.get("worst") or {}).items():
            try:
                ctx.worst[k] = max(ctx.worst.get(k, 0.0), float(v))
            except ValueError:
                pass
        for d in r["bad"]:
            d["batch"] = -1
            d["script"] = out
            d.setdefault("info", {})["repo_test"] = t
            ctx.devs.append(d)


def plan_C01(ctx):
    return plan_spline_build(ctx, {"C01"}, {}, 1, 12,
                             rule="every order x dimension 1..10 x N 1..10 plus long splines (N in {12,16,31,32,33,64,100,257}, dimensions {1,2,3,4,5,8}), the four construction/update overloads cycled, "
                                  "boundary-condition constructor arity varied, data classes grid/real/2^40-scaled, start-time classes; "
                                  "one execution = build + knot evaluations (global and per-segment routes) + paired build through the "
                                  "other time overload + comparison; non-trivial = distinct (order,dim,N,overload,data) executions validated")


def plan_C02(ctx):
    return plan_spline_build(ctx, {"C02"}, {"VJ_MIN": "1"}, 1, 8, repo_tests=("test_bc_grad.cpp", "test_Grad.cpp") if ctx.quick() else
                             ("test_bc_grad.cpp", "test_Grad.cpp", "test_cost_grad.cpp", "test_with_min_jerk_3d.cpp", "test_with_min_snap_3d.cpp"),
                             rule="the repository's own test programs (unmodified, built with the guarded build-observer hook) are run and "
                                  "every spline build they perform (rate limited) is validated like the replayed ones; as C01; every build in W with at most 40 unknowns is additionally compared coefficient-wise with "
                                  "the exact dense solve of the optimality conditions (SplineMath!MinCoeffs); continuity residuals of "
                                  "derivatives 1..2s-2 at every interior knot are evaluated exactly on the logged bits")


def plan_C04(ctx):
    def extra(ctx, r):
        # any positive durations (ratios up to 1e6): the energy is a closed form of the published coefficients
        ex = spline_build_execs(ctx, r, 1 if ctx.quick() else 6, tdom="any", with_knots=False, pair=False)
        # the energy of an object that is re-built (same and different segment counts, other durations / waypoints / boundary states)
        # after its energy was queried: always the integral of the trajectory it publishes NOW
        for rep in range(1 if ctx.quick() else 8):
            for order in gen.ORDERS:
                for dim in (1, 2, 4):
                    for n in (1, 2, 3, 5):
                        cmds = [{"op": "reset"}]
                        seq = [n, n, max(1, n - 1), n + 1, n]
                        for q, nn in enumerate(seq):
                            pr = r.problem(order, dim, nn, tdom=r.choice(["W", "any"]))
                            cmds.append(gen.build_cmd(1, pr, "ctor_durs" if q == 0 else r.choice(["upd_durs", "upd_pts"]), 6))
                            cmds.append({"op": "energy", "obj": 1})
                            if q == 2:
                                cmds.append({"op": "copy", "dst": 2, "src": 1})
                            if q >= 3:
                                cmds.append({"op": "energy", "obj": 2})
                        ex.append((len(cmds) * dim * n, cmds))
        return ex
    return plan_spline_build(ctx, {"C04"}, {}, 1, 6, extra_execs=extra,
                             rule="every order x dimension x N; durations in W and arbitrary positive durations (ratio up to 1e6); "
                                  "getEnergy() against the exact integral of the squared s-th derivative of the published polynomials")


# ------------------------------------------------------------------ C18: accuracy over the accepted range of durations
C18_RATIOS = (2, 5, 10, 20, 30, 50, 70, 100)
C18_PATTERNS = ("one_short", "one_long", "alternating", "logmix")


def c18_durations(pattern, n, ratio, pos):
    """durations are multiples of 1/16 so that max/min is EXACTLY the ratio"""
    lo, hi = 0.0625, 0.0625 * ratio
    if pattern == "one_short":
        T = [hi] * n
        T[pos % n] = lo
    elif pattern == "one_long":
        T = [lo] * n
        T[pos % n] = hi
    elif pattern == "alternating":
        T = [lo if i % 2 == 0 else hi for i in range(n)]
    else:
        T = [0.0625 * max(1, min(ratio, round(ratio ** (i / max(1, n - 1))))) for i in range(n)]
        T[0], T[-1] = lo, hi
    return T


def c18_corpus():
    import zlib
    out = []
    for order in gen.ORDERS:
        for n in range(2, 9):
            for pat in C18_PATTERNS:
                for ratio in C18_RATIOS:
                    # several data sets per placement at the large ratios (accuracy loss there depends on the waypoints as well);
                    # variant 0 keeps the original case id
                    for var in range(8 if ratio >= 50 and pat in ("one_short", "one_long") else 1):
                        cid = "c18/o%d/N%d/%s/r%d" % (order, n, pat, ratio) + ("" if var == 0 else "/v%d" % var)
                        r = gen.Rng(zlib.crc32(cid.encode()))       # seed-independent: the corpus is canonical
                        T = c18_durations(pat, n, ratio, r.randrange(n))
                        pr = r.problem(order, (2, 3, 1, 2, 3, 1, 2, 4)[var], n, tdom=T, dcls=r.choice(["grid", "real"]), t0=0.0)
                        cmds = [{"op": "reset"}, {"op": "note", "case": cid}, gen.build_cmd(1, pr, "ctor_durs", 6)]
                        out.append((n * 2 * (order + 1) // 2 + 5, cmds))
    return out


def c18_random(r, count):
    out = []
    for k in range(count):
        order = gen.ORDERS[k % 3]
        n = 2 + (k // 3) % 9
        ratio = r.choice([3, 8, 15, 25, 40, 60, 80, 100])
        s0 = 2.0 ** r.randint(-6, 3)
        T = [s0 * r.randint(16, 16 * ratio) / 16.0 for _ in range(n)]
        pr = r.problem(order, r.choice([1, 2, 3, 4]), n, tdom=T, dcls=r.choice(["grid", "real", "big"]))
        cmds = [{"op": "reset"}, {"op": "note", "case": "rnd/%d" % k}, gen.build_cmd(1, pr, r.choice(["ctor_durs", "upd_durs"]), 6)]
        out.append((n * pr["dim"] * (order + 1) // 2 + 5, cmds))
    return out


def plan_C18(ctx):
    selftest_rat(ctx)
    exe = vbuild.spline_replay()
    r = gen.Rng(ctx.seed * 1000003 + 18)
    execs = c18_corpus() + c18_random(r, 828 if ctx.quick() else 39000)
    batches = balanced(execs, 32 if ctx.quick() else 128)
    ctx.family, ctx.tracespec, ctx.env_flags = "spline", "TraceSpline", {}
    ctx.samples = sample_of(batches)
    replay_and_validate(ctx, exe, batches, "TraceSpline", {})
    return finish(ctx, "exploration",
                  "canonical seed-independent corpus (3 orders x N 2..8 x 4 placement patterns x 8 ratios up to 100) plus seeded random "
                  "duration vectors of domain A (N 2..10, every T >= 1 ms, max/min <= 100); every defining-equation residual evaluated "
                  "exactly on the logged coefficient bits, tolerance 1e-3; non-trivial = distinct duration vectors judged",
                  TRUSTED, ["domain A of DESIGN s4", "rounding is judged exactly, not predicted: level exploration"],
                  props_judged={"C18"})


# ------------------------------------------------------------------ gradients: C05, C06
GRAD_NS = {3: (1, 2, 3, 5, 10), 5: (1, 2, 3, 4, 6), 7: (1, 2, 3, 4, 5)}     # 2sN <= 40: exact dense oracle


def upstream(r, order, n, dim, kind):
    s2 = order + 1
    rows = s2 * n
    if kind == "dense":
        return [[r.dyadic(-4, 4, 4) for _ in range(dim)] for _ in range(rows)], [r.dyadic(-4, 4, 4) for _ in range(n)]
    if kind == "real":
        return [[r.uniform(-10, 10) for _ in range(dim)] for _ in range(rows)], [r.uniform(-10, 10) for _ in range(n)]
    if kind == "sparse":
        g = [[0.0] * dim for _ in range(rows)]
        for _ in range(3):
            g[r.randrange(rows)][r.randrange(dim)] = r.dyadic(-4, 4, 4)
        return g, [0.0] * n
    if kind == "zero":
        return [[0.0] * dim for _ in range(rows)], [0.0] * n
    if kind == "timeonly":
        return [[0.0] * dim for _ in range(rows)], [r.dyadic(-4, 4, 4) for _ in range(n)]
    raise ValueError(kind)


def prop_cmd(obj, gc, gt, via="ret"):
    return {"op": "prop", "obj": obj, "gdC": gen.hm(gc), "gdT": gen.hv(gt), "via": via}


def grad_execs(ctx, r, nrep, with_props=True, with_energy_grads=True):
    execs = []
    for rep in range(nrep):
        for order in gen.ORDERS:
            for n in GRAD_NS[order]:
                for dim in (1, 2, 3, 4, 5):
                    # arbitrary-double durations only for small systems: the exact inverse of a 40x40 matrix with 53-bit entries
                    # has entries thousands of digits long; larger systems use durations on the dyadic grid (multiples of 1/16)
                    small = (order + 1) * n <= 16
                    pr = r.problem(order, dim, n, dcls=r.choice(["grid", "real"]), dyadic=None if small else True)
                    if (n + dim + rep) % 3 == 0:
                        # the same curve on a time axis scaled by a large power of two (all durations ~ 0.01 s or ~ minutes): the properties bound
                        # the ratio of durations, not their size; mis-scaled terms are negligible only near 1 s
                        f = 2.0 ** r.choice([-6, 6, 9])
                        pr = dict(pr); pr["T"] = [t * f for t in pr["T"]]
                        pr["bc"] = {kk: [x / f ** {"v": 1, "a": 2, "j": 3}[kk[1]] for x in vv] for kk, vv in pr["bc"].items()}
                    cmds = [{"op": "reset"}, gen.build_cmd(1, pr, r.choice(["ctor_durs", "upd_durs", "ctor_pts"]) if small else r.choice(["ctor_durs", "upd_durs"]), 6)]
                    if with_energy_grads:
                        cmds += [{"op": "epartial", "obj": 1}, {"op": "epartial", "obj": 1, "via": "ref"},
                                 {"op": "egrad", "obj": 1}, {"op": "egrad", "obj": 1, "via": "ref"}, {"op": "egrad", "obj": 1, "via": "parts"},
                                 {"op": "prop_epartial", "obj": 1},
                                 # caller-provided outputs that already have the right shape and hold garbage, then the same buffers again
                                 {"op": "epartial", "obj": 1, "via": "dirty"}, {"op": "egrad", "obj": 1, "via": "dirty"},
                                 {"op": "epartial", "obj": 1, "via": "reuse"}, {"op": "egrad", "obj": 1, "via": "reuse"}]
                    if with_props:
                        rows = (order + 1) * n
                        ups = []
                        if n <= 2 and dim <= 2:
                            for rr in range(rows):          # every unit vector of the coefficient gradient
                                for c in range(dim):
                                    g = [[0.0] * dim for _ in range(rows)]
                                    g[rr][c] = 1.0
                                    ups.append((g, [0.0] * n))
                            for i in range(n):              # ... and of the duration gradient
                                ups.append(([[0.0] * dim for _ in range(rows)], [1.0 if j == i else 0.0 for j in range(n)]))
                        kinds = ["dense", "dense", "real", "sparse", "sparse", "zero", "timeonly"]
                        ups += [upstream(r, order, n, dim, k) for k in kinds]
                        first = ups[-7]
                        for q, (g, t) in enumerate(ups):
                            cmds.append(prop_cmd(1, g, t, ("ref", "ret", "dirty", "reuse")[q % 4] if q >= len(ups) - 7 else ("ref" if q % 2 else "ret")))
                        cmds.append(prop_cmd(1, first[0], first[1]))     # repeated call after others: independent of earlier calls
                        if with_energy_grads:
                            cmds.append({"op": "egrad", "obj": 1})       # read-only queries do not disturb each other
                    execs.append((len(cmds) * n * dim + 10, cmds))
    # long splines with durations on the dyadic grid (the exact dense adjoint stays cheap there): blocked or unrolled loops, tails, indices
    for rep in range(nrep):
        for order, nlist in ((3, (16, 33)), (5, (12, 20)), (7, (10, 14))):
            for n in nlist:
                for dim in ((1, 2) if ctx.quick() else (1, 2, 4)):
                    pr = r.problem(order, dim, n, dcls=r.choice(["grid", "real"]), dyadic=True)
                    cmds = [{"op": "reset"}, gen.build_cmd(1, pr, r.choice(["ctor_durs", "upd_durs"]), 6)]
                    if with_props:
                        for kind in ("dense", "sparse", "timeonly"):
                            g, t = upstream(r, order, n, dim, kind)
                            cmds.append(prop_cmd(1, g, t, r.choice(["ref", "ret", "dirty"])))
                    if with_energy_grads:
                        cmds += [{"op": "egrad", "obj": 1}, {"op": "egrad", "obj": 1, "via": "parts"}, {"op": "epartial", "obj": 1}, {"op": "prop_epartial", "obj": 1}]
                    execs.append((len(cmds) * n * n * dim, cmds))
    # one object re-built with another segment count (shrinking and growing) between gradient queries: the adjoint workspaces and cached
    # factors of the earlier size must not show through (each result is judged against the exact adjoint of the CURRENT problem)
    for rep in range(nrep):
        for order in gen.ORDERS:
            ns = GRAD_NS[order]
            for dim in (1, 2, 4):
                for (n1, n2) in ((ns[-1], 1), (ns[-1], 2), (2, ns[-1]), (ns[-2], ns[-1]), (3, 2), (1, 3)):
                    cmds = [{"op": "reset"}]
                    for stage, n in enumerate((n1, n2, n1)):
                        pr = r.problem(order, dim, n, dcls=r.choice(["grid", "real"]), dyadic=True)
                        how = "ctor_durs" if stage == 0 else r.choice(["upd_durs", "upd_pts"])
                        cmds.append(gen.build_cmd(1, pr, how, 6))
                        if with_props:
                            for kind in ("dense", "real"):
                                g, t = upstream(r, order, n, dim, kind)
                                cmds.append(prop_cmd(1, g, t, r.choice(["ref", "ret", "reuse", "reuse", "dirty"])))
                        if with_energy_grads:
                            cmds += [{"op": "egrad", "obj": 1, "via": r.choice(["ref", "parts", "reuse", "reuse", "dirty"])},
                                     {"op": "epartial", "obj": 1, "via": r.choice(["ret", "reuse", "reuse", "dirty"])},
                                     {"op": "prop_epartial", "obj": 1}]
                    execs.append((len(cmds) * max(n1, n2) * dim + 10, cmds))
    return execs


def plan_grad(ctx, props, with_props, with_eg, rule):
    selftest_rat(ctx)
    mc_splinemath(ctx)
    exe = vbuild.spline_replay()
    r = gen.Rng(ctx.seed * 1000003 + sum(map(ord, ctx.prop)))
    execs = grad_execs(ctx, r, 1 if ctx.quick() else 12, with_props, with_eg)
    batches = balanced(execs, 32 if ctx.quick() else 96)
    env = {"VJ_GRAD": "1"}
    ctx.family, ctx.tracespec, ctx.env_flags = "spline", "TraceSpline", env
    ctx.samples = sample_of(batches)
    replay_and_validate(ctx, exe, batches, "TraceSpline", env)
    return finish(ctx, "model_checking", rule, TRUSTED,
                  ["durations in W (DESIGN s4), at most 40 unknowns so that the exact dense adjoint is available",
                   "gradient tolerance 1e-6 * S_k with S_k = sum_j |J_jk||g_j| from the exact Jacobian"], props_judged=props)


def plan_C05(ctx):
    return plan_grad(ctx, {"C05"}, True, False,
                     "3 orders x 5 segment counts (N=1, N=2 always) x dimensions 1..5 (both septic branches); upstream gradients: every unit "
                     "vector for N<=2, D<=2, plus dense dyadic, dense real, sparse, zero, duration-only; both overloads; one repeated call; objects "
                     "re-built with a smaller / larger segment count between propagations; each "
                     "result compared entry-wise with the exact transpose-Jacobian product (implicit differentiation of the defining equations)")


def plan_C06(ctx):
    return plan_grad(ctx, {"C06"}, False, True,
                     "as C05; getEnergyPartialGradByCoeffs/Times against exact partials of the energy integral of the published coefficients; "
                     "getEnergyGrad (three access routes) and propagation of the partials against the exact total derivative of the energy")


# ------------------------------------------------------------------ C13: dimensions are independent
def sub_problem(pr, j):
    q = dict(pr)
    q["dim"] = 1
    q["P"] = [[row[j]] for row in pr["P"]]
    q["bc"] = {k: [v[j]] for k, v in pr["bc"].items()}
    return q


def perm_problem(pr, perm):
    q = dict(pr)
    q["P"] = [[row[p] for p in perm] for row in pr["P"]]
    q["bc"] = {k: [v[p] for p in perm] for k, v in pr["bc"].items()}
    return q


def plan_C13(ctx):
    selftest_rat(ctx)
    mc_splinemath(ctx)
    exe = vbuild.spline_replay()
    r = gen.Rng(ctx.seed * 1000003 + 13)
    execs = []
    # every order x dimension 1..10 with generic data, then every order x every kind of special coordinate (identically zero, constant,
    # at rest, equal consecutive waypoints, dwelling on the first / last waypoint at rest) in dimensions 2..4: shortcuts decided on whole
    # rows or on one coordinate's data couple the coordinates or break the one-dimensional problem
    combos = [(rep, order, dim, None) for rep in range(1 if ctx.quick() else 20) for order in gen.ORDERS for dim in range(1, 11)]
    combos += [(rep, order, 2 + (q + rep) % 3, sp) for rep in range(1 if ctx.quick() else 6) for order in gen.ORDERS for q, sp in enumerate(gen.Rng.SPECIALS)]
    for (rep, order, dim, sp) in combos:
        if True:
            if True:
                n = (1, 2, 3, 4)[(dim + rep + order) % 4] if rep < 4 else r.choice([1, 2, 3, 4, 5])
                if sp:
                    n = (3, 4, 5)[(rep + order) % 3]
                pr = r.problem(order, dim, n, dcls=r.choice(["grid", "real"]), dyadic=None if (order + 1) * n <= 16 else True, special=sp)
                gc, gt = upstream(r, order, n, dim, "dense")
                cmds = [{"op": "reset"}, gen.build_cmd(1, pr, "ctor_durs", 6), {"op": "energy", "obj": 1}, {"op": "egrad", "obj": 1},
                        prop_cmd(1, gc, gt)]
                parts = []
                for j in range(dim):
                    oid = 10 + j
                    parts.append(oid)
                    cmds += [gen.build_cmd(oid, sub_problem(pr, j), "ctor_durs", 6), {"op": "energy", "obj": oid}, {"op": "egrad", "obj": oid},
                             prop_cmd(oid, [[row[j]] for row in gc], gt if j == 0 else [0.0] * n),
                             {"op": "note", "what": "coord", "a": 1, "b": oid, "j": j + 1}]
                cmds.append({"op": "note", "what": "sum", "a": 1, "parts": parts})
                perm = list(range(dim))
                r.shuffle(perm)
                cmds += [gen.build_cmd(2, perm_problem(pr, perm), "ctor_durs", 6), {"op": "energy", "obj": 2},
                         {"op": "note", "what": "perm", "a": 1, "b": 2, "perm": [p + 1 for p in perm]}]
                execs.append((n * dim * (order + 1) * 3, cmds))
    batches = balanced(execs, 30 if ctx.quick() else 96)
    env = {"VJ_MIN": "1", "VJ_GRAD": "1"}
    ctx.family, ctx.tracespec, ctx.env_flags = "spline", "TraceSpline", env
    ctx.samples = sample_of(batches)
    replay_and_validate(ctx, exe, batches, "TraceSpline", env)
    return finish(ctx, "model_checking",
                  "every order x dimension 1..10: the D-dimensional object, its D one-dimensional coordinate problems and a coordinate "
                  "permutation in one execution; the D-dimensional recording is validated against the per-coordinate exact oracle "
                  "(coefficients, energy, energy gradient, propagation) and compared coordinate-wise with the 1-D recordings",
                  TRUSTED, ["durations in W; at most 40 unknowns per coordinate problem"],
                  props_judged={"C13", "C01", "C02", "C04", "C05", "C06"})


# ------------------------------------------------------------------ C14: metamorphic laws
def plan_C14(ctx):
    selftest_rat(ctx)
    mc_splinemath(ctx)
    exe = vbuild.spline_replay()
    r = gen.Rng(ctx.seed * 1000003 + 14)
    execs = []
    kk = 0

    HOWS = ("ctor_durs", "ctor_pts", "upd_durs", "upd_pts")

    def obj_cmds(oid, pr, how="ctor_durs"):
        return [gen.build_cmd(oid, pr, how, 6), {"op": "energy", "obj": oid}, {"op": "egrad", "obj": oid}]
    for rep in range(1 if ctx.quick() else 20):
        for order in gen.ORDERS:
            for n in (1, 2, 3, 4):
                for dim in (1, 2, 3, 4, 6):
                    small = (order + 1) * n <= 16
                    pr = r.problem(order, dim, n, dcls=r.choice(["grid", "real"]), dyadic=None if small else True)
                    gm = math.exp(sum(math.log(t) for t in pr["T"]) / n)
                    kk += 1
                    # every object through one of the four construction / update overloads.  Bit identity under a time shift needs bit-identical
                    # durations: with the time-point overloads that holds when all time points are exact (dyadic problem, dyadic shift)
                    dyadic = all(float(t * 16).is_integer() for t in pr["T"]) and float(pr["t0"] * 16).is_integer() and abs(pr["t0"]) < 1e5
                    hb = HOWS[kk % 4] if dyadic else HOWS[(kk % 2) * 2]
                    cmds = [{"op": "reset"}] + obj_cmds(1, pr, hb)
                    # shift
                    dt = r.choice([1.5, -2.25, 1e6, 0.1]) if not dyadic else r.choice([1.5, -2.25, 4096.0, 0.125])
                    q = dict(pr); q["t0"] = pr["t0"] + dt
                    dt = q["t0"] - pr["t0"]
                    cmds += obj_cmds(2, q, HOWS[(kk + 1) % 4] if dyadic else HOWS[((kk + 1) % 2) * 2]) + [{"op": "note", "what": "xform", "kind": "shift", "a": 1, "b": 2, "dt": gen.hx(dt)}]
                    # translate
                    v = [r.choice([r.dyadic(-8, 8, 8), r.uniform(-100, 100)]) for _ in range(dim)]
                    q = dict(pr); q["P"] = [[x + v[c] for c, x in enumerate(row)] for row in pr["P"]]
                    v_eff = [q["P"][0][c] - pr["P"][0][c] for c in range(dim)]
                    cmds += obj_cmds(3, q, HOWS[(kk + 2) % 4]) + [{"op": "note", "what": "xform", "kind": "translate", "a": 1, "b": 3, "v": gen.hv(v_eff)}]
                    # scale space
                    f = r.choice([2.0, 0.25, 3.0, 1.0 / 3.0, -1.0])
                    q = dict(pr); q["P"] = [[x * f for x in row] for row in pr["P"]]; q["bc"] = {k: [x * f for x in vv] for k, vv in pr["bc"].items()}
                    cmds += obj_cmds(4, q, HOWS[(kk + 3) % 4]) + [{"op": "note", "what": "xform", "kind": "scale", "a": 1, "b": 4, "f": gen.hx(f)}]
                    # scale time (stay inside W: keep the geometric mean within [0.11, 9])
                    f = r.choice([2.0, 0.5, 3.0, 1.0 / 3.0] if small else [2.0, 0.5])
                    if not (0.11 <= gm * f <= 9.0):
                        f = 1.0 / f
                    q = dict(pr); q["T"] = [t * f for t in pr["T"]]
                    q["bc"] = {k: [x / f ** {"v": 1, "a": 2, "j": 3}[k[1]] for x in vv] for k, vv in pr["bc"].items()}
                    cmds += obj_cmds(5, q, HOWS[kk % 4]) + [{"op": "note", "what": "xform", "kind": "tscale", "a": 1, "b": 5, "f": gen.hx(f)}]
                    # scale time by large powers of two, far outside W (minutes, hours, milliseconds): the relation is exact in floating
                    # point for a scale-covariant solver; absolute thresholds on durations or determinants show up here
                    for oid, f in ((7, r.choice([2.0 ** 6, 2.0 ** 9, 2.0 ** 11, 2.0 ** 14])), (8, r.choice([2.0 ** -5, 2.0 ** -7, 2.0 ** -9]))):
                        q = dict(pr); q["T"] = [t * f for t in pr["T"]]
                        q["bc"] = {k: [x / f ** {"v": 1, "a": 2, "j": 3}[k[1]] for x in vv] for k, vv in pr["bc"].items()}
                        cmds += obj_cmds(oid, q, HOWS[(kk + oid) % 4]) + [{"op": "note", "what": "xform", "kind": "tscale", "a": 1, "b": oid, "f": gen.hx(f)}]
                    # reverse
                    q = dict(pr); q["T"] = pr["T"][::-1]; q["P"] = pr["P"][::-1]
                    sg = {"v": -1.0, "a": 1.0, "j": -1.0}
                    q["bc"] = {("s" if k[0] == "e" else "e") + k[1]: [sg[k[1]] * x for x in vv] for k, vv in pr["bc"].items()}
                    cmds += obj_cmds(6, q, HOWS[(kk + 1) % 4]) + [{"op": "note", "what": "xform", "kind": "reverse", "a": 1, "b": 6}]
                    execs.append((n * dim * (order + 1) * 6, cmds))
    batches = balanced(execs, 32 if ctx.quick() else 96)
    env = {"VJ_MIN": "1", "VJ_GRAD": "1"}
    ctx.family, ctx.tracespec, ctx.env_flags = "spline", "TraceSpline", env
    ctx.samples = sample_of(batches)
    replay_and_validate(ctx, exe, batches, "TraceSpline", env)
    return finish(ctx, "model_checking",
                  "3 orders x N 1..4 x dimension {1,2,3,4,6}: a problem and its transforms (start-time shift, translation, space scaling incl. "
                  "non-powers of two and -1, time scaling inside W and by 2^6..2^14 and 2^-5..2^-9, time reversal) in one execution; shift: identical coefficient/energy/gradient bits; "
                  "others: recordings compared with the transform of the original recording, and each recording with its own exact minimiser, "
                  "energy and exact energy gradient; the transformation laws themselves are TLC theorems on the grid (MCSplineMath!Metamorphic)",
                  TRUSTED, ["durations in W"], props_judged={"C14", "C02", "C04", "C06"})


# ------------------------------------------------------------------ C10: results depend only on the latest inputs
C10_DIM = {3: 2, 5: 3, 7: 4}


ALL_KINDS = '{"energy", "egrad", "epartial", "prop", "eval", "state", "knots"}'
ALL_HOWS = '{"ctor_durs", "ctor_pts", "upd_durs", "upd_pts"}'


def mcobj_cfg(order, maxops, emit, broken="none", sizes="{1, 2, 3}", kinds=ALL_KINDS, hows=ALL_HOWS):
    return ("SPECIFICATION Spec\nCONSTANTS\n  Ids = {1, 2}\n  Sizes = %s\n  Variants = {1, 2}\n  Order = %d\n  MaxOps = %d\n"
            "  Emit = %s\n  Broken = \"%s\"\n  KindSet = %s\n  HowSet = %s\nINVARIANT Inv\nCONSTRAINT EmitScripts\nVIEW View\nCHECK_DEADLOCK FALSE\n"
            % (sizes, order, maxops, "TRUE" if emit else "FALSE", broken, kinds, hows))


def run_mc_text(ctx, module, cfg_text, name, **kw):
    cfg = "_mc_%s_%d.cfg" % (name, os.getpid())
    open(os.path.join(vbuild.VERIF, "spec", cfg), "w").write(cfg_text)
    try:
        r = run_mc(ctx, module, cfg, **kw)
        r["cfg"] = name
        if kw.get("expect_violation"):
            r["expect_violation"] = True
    finally:
        os.remove(os.path.join(vbuild.VERIF, "spec", cfg))
    return r


class ProbTable:
    """deterministic problem data per (order, size, variant): the same abstract problem is the same concrete problem in every script"""
    def __init__(self, seed):
        self.seed, self.t = seed, {}

    MODES = ("any", "sameT", "bc_only", "oneT", "tiny", "t0_only", "sameT_t0")

    def get(self, order, n, v, mode="any"):
        """mode: how variant 2 relates to variant 1 of the same size - independent data ("any"), the same durations with other waypoints
        and boundary states ("sameT"), only one boundary component differs ("bc_only"), only one duration differs ("oneT"), one waypoint
        coordinate differs in its last bits ("tiny"), only the start time differs ("t0_only"), the same durations with another start time and
        other data ("sameT_t0"): what a 'nothing changed' shortcut that compares only part of the inputs gets wrong"""
        k = (order, n, v) if (v == 1 or mode == "any") else (order, n, v, mode)
        if k not in self.t:
            r = gen.Rng(self.seed * 7919 + order * 1000 + n * 10 + v)
            if v != 1 and mode != "any":
                base = self.get(order, n, 1)[0]
                pr = dict(base)
                if mode in ("sameT", "sameT_t0"):
                    other = r.problem(order, C10_DIM[order], n, tdom="W", dcls=base["dcls"])
                    pr["P"], pr["bc"] = other["P"], other["bc"]
                    if mode == "sameT_t0":
                        pr["t0"] = base["t0"] + r.choice([5.0, -3.5, 0.125])
                elif mode == "t0_only":
                    pr["t0"] = base["t0"] + r.choice([5.0, -3.5, 0.125, 1e6])
                elif mode == "bc_only":
                    bc = {kk: list(vv) for kk, vv in base["bc"].items()}
                    which = r.choice(["sv", "ev"] if order == 3 else ["sv", "sa", "ev", "ea"] if order == 5 else ["sv", "sa", "sj", "ev", "ea", "ej"])
                    bc[which][r.randint(0, C10_DIM[order] - 1)] += r.choice([0.5, -1.25, 2.0])
                    pr["bc"] = bc
                elif mode == "oneT":
                    T = list(base["T"])
                    i = r.randint(0, n - 1)
                    T[i] = T[i] * r.choice([1.25, 0.875, 1.0 + 2.0 ** -20])
                    pr["T"] = T
                else:
                    P = [list(row) for row in base["P"]]
                    i, c = r.randint(0, n), r.randint(0, C10_DIM[order] - 1)
                    P[i][c] = P[i][c] * (1.0 + 2.0 ** -40) if P[i][c] != 0.0 else 2.0 ** -40
                    pr["P"] = P
            elif v == 1:
                # variant 1: every size is a PREFIX of one master problem (dropping trailing waypoints keeps the leading
                # durations bit-identical - the history a cache keyed on "durations unchanged" gets wrong)
                if (order, "master") not in self.t:
                    rm = gen.Rng(self.seed * 7919 + order * 1000 + 7)
                    self.t[(order, "master")] = rm.problem(order, C10_DIM[order], 4, tdom="W", dcls=rm.choice(["grid", "real"]))
                m = self.t[(order, "master")]
                pr = dict(m)
                pr["T"] = m["T"][:n]
                pr["P"] = m["P"][:n + 1]
            else:
                pr = r.problem(order, C10_DIM[order], n, tdom="any", dcls=r.choice(["grid", "real"]))
            gc, gt = upstream(r, order, n, C10_DIM[order], "dense")
            self.t[k] = (pr, gc, gt)
        return self.t[k]


def expand_spline_script(tab, order, hist, mode=None):
    """abstract history from MCSplineObj -> concrete commands, followed by an observation suffix on every live object and the same
    observations on a FRESH object built from the same inputs (the memo of the trace specification demands identical bits)"""
    if mode is None:
        mode = ProbTable.MODES[(sum(len(str(a)) for a in hist) + len(hist)) % len(ProbTable.MODES)]
    cmds = [{"op": "reset"}]
    cur = {}
    for a in hist:
        op = a["op"]
        if op == "build":
            pr, gc, gt = tab.get(order, a["n"], a["v"], mode)
            cmds.append(gen.build_cmd(a["obj"], pr, a["how"], 6))
            cur[a["obj"]] = (a["n"], a["v"], "pts" if a["how"].endswith("pts") else "durs")
        elif op in ("copy", "assign"):
            cmds.append({"op": op, "dst": a["dst"], "src": a["src"]})
            cur[a["dst"]] = cur[a["src"]]
        else:
            cmds += query_cmds(tab, order, a["obj"], cur[a["obj"]], [op], mode)
    kinds = ["state", "energy", "egrad", "epartial", "prop", "eval", "knots"]
    for oid in sorted(cur):
        cmds += query_cmds(tab, order, oid, cur[oid], kinds, mode)
    for j, nv in enumerate(sorted(set(cur.values()))):
        pr, gc, gt = tab.get(order, nv[0], nv[1], mode)
        cmds.append(gen.build_cmd(90 + j, pr, "ctor_" + nv[2], 6))       # same time overload: the inputs are then the same strings
        # the twin is asked the same questions in the opposite order (and visits the knots in descending order): answers to read-only
        # queries do not depend on what was asked before
        tw = query_cmds(tab, order, 90 + j, nv, kinds[::-1], mode)
        for c in tw:
            if c["op"] == "knots":
                c["desc"] = True
        cmds += tw
    return cmds


def query_cmds(tab, order, oid, nv, kinds, mode="any"):
    pr, gc, gt = tab.get(order, nv[0], nv[1], mode)
    out = []
    for k in kinds:
        if k == "prop":
            out.append(prop_cmd(oid, gc, gt))
        elif k == "eval":
            out.append({"op": "eval", "obj": oid, "t": gen.hx(pr["t0"] + 0.37 * sum(pr["T"])), "d": 1})
        else:
            out.append({"op": k, "obj": oid})
    return out


def spline_lifeline(h):
    """what the object touched by the last action went through: sizes, queries in between, copies/assignments (with the donor's line)"""
    line = {}
    for a in h:
        if a["op"] == "build":
            line[a["obj"]] = line.get(a["obj"], "") + "%s%d" % ("U" if a["how"].startswith("upd") else "B", a["n"])
        elif a["op"] in ("copy", "assign"):
            line[a["dst"]] = (line.get(a["dst"], "") if a["op"] == "assign" else "") + "<%s>" % line.get(a["src"], "")
        else:
            line[a["obj"]] = line.get(a["obj"], "") + a["op"][0]
    last = h[-1]
    return line.get(last.get("dst", last.get("obj")), "")


def plan_C10(ctx):
    selftest_rat(ctx)
    depth = 3 if ctx.quick() else 4
    for order in (3, 5):      # the block solvers (quintic, septic) share one cache discipline in the model
        run_mc_text(ctx, "MCSplineObj", mcobj_cfg(order, depth, False), "MCSplineObj(order=%d,depth=%d)" % (order, depth + 1), workers=8, heap="8g")
    for order, broken in ((3, "noresize"), (5, "readcache"), (5, "keepderiv")):
        run_mc_text(ctx, "MCSplineObj", mcobj_cfg(order, 3, False, broken), "broken twin %s (order %d)" % (broken, order), workers=4, expect_violation=True)
    exe = vbuild.spline_replay()
    r = gen.Rng(ctx.seed * 1000003 + 10)
    tab = ProbTable(ctx.seed)
    execs = []
    nsample = 500 if ctx.quick() else 8000
    for order in gen.ORDERS:
        scripts = tlc_generate_spline(ctx, order)
        # keep every script class (last action) represented: sample evenly per class
        groups = {}
        for h in scripts:
            last = h[-1]
            groups.setdefault((last["op"], last.get("how", ""), len(h)), []).append(h)
        per = max(1, nsample // max(1, len(groups)))
        chosen = []
        for g in sorted(groups):
            hs = groups[g]
            r.shuffle(hs)
            chosen += hs[:per]
        # deeper histories over a narrow alphabet (sizes 1 and 3, evaluation and propagation, two overloads): sampled evenly over the
        # life line of the object touched last (sizes it went through, what was queried in between, copies/assignments received)
        dgroups = {}
        for h in tlc_generate_spline(ctx, order, deep=True):
            if len(h) >= 4:
                dgroups.setdefault((h[-1]["op"], spline_lifeline(h)), []).append(h)
        dper = max(1, (nsample // 2) // max(1, len(dgroups)))
        for g in sorted(dgroups):
            hs = dgroups[g]
            r.shuffle(hs)
            chosen += hs[:dper]
        for h in chosen:
            cmds = expand_spline_script(tab, order, h)
            execs.append((len(cmds) * (order + 1), cmds))
        # an object updated with inputs that differ from its current ones in ONE respect only (every relation mode of the problem table,
        # both update overloads, with and without queries in between, both directions): 'nothing changed' shortcuts
        for mode in ProbTable.MODES[1:]:
            for n in (1, 2, 3):
                for how2 in ("upd_durs", "upd_pts"):
                    for (va, vb) in ((1, 2), (2, 1)):
                        for mid in ((), ("prop", "eval")):
                            how1 = "ctor_durs" if how2 == "upd_durs" else "ctor_pts"
                            h = [{"op": "build", "obj": 1, "n": n, "v": va, "how": how1}] + [{"op": q, "obj": 1} for q in mid] + \
                                [{"op": "build", "obj": 1, "n": n, "v": vb, "how": how2}]
                            cmds = expand_spline_script(tab, order, h, mode=mode)
                            execs.append((len(cmds) * (order + 1), cmds))
        if not ctx.quick():      # long random walks (growing and shrinking sizes, interleaved queries and copies): TLC -simulate, depth 12
            from vcheck import tlc_generate
            mo = 5 if order == 7 else order
            for h in tlc_generate(ctx, "MCSplineObj", mcobj_cfg(mo, 12, True), "splinewalk_o%d" % order, workers=1, simulate=(400, 12)):
                cmds = expand_spline_script(tab, order, h)
                execs.append((len(cmds) * (order + 1), cmds))
    batches = balanced(execs, 32 if ctx.quick() else 96)
    env = {"VJ_KEEPMEMO": "1"}
    ctx.family, ctx.tracespec, ctx.env_flags = "spline", "TraceSpline", env
    ctx.samples = [b[:4] for b in batches[:2]]
    replay_and_validate(ctx, exe, batches, "TraceSpline", env)
    # optimizer workspaces reused across evaluations of different problems, sizes and optimizers: same bits as a fresh workspace
    wexecs = []
    for rep in range(4 if ctx.quick() else 60):
        for order in gen.ORDERS:
            for fam in FAMILIES:
                D = r.choice([1, 2, 3])
                ps = [gen.OptProblem(r, order, D, n, fam[0], fam[1]) for n in r.sample([1, 2, 3, 4], 3)]
                cmds = [{"op": "reset"}]
                for q, p in enumerate(ps):
                    cmds += p.cmds_setup(q + 1)
                evs = []
                for q, p in enumerate(ps):
                    for _ in range(2):
                        evs.append((q + 1, gen.hv(p.x(r)), gen.cost_params(r), r.choice([2, 3])))
                seq = evs + r.sample(evs, len(evs))
                for (oid, x, cp, ov) in seq:                       # one shared external workspace, sizes growing and shrinking
                    cmds.append({"op": "evaluate", "obj": oid, "x": x, "ws": 9, "costs": cp, "overload": ov})
                for n_, (oid, x, cp, ov) in enumerate(evs):        # the same calls on fresh workspaces and on the built-in one
                    cmds.append({"op": "evaluate", "obj": oid, "x": x, "ws": 20 + n_, "costs": cp, "overload": ov})
                    cmds.append({"op": "evaluate", "obj": oid, "x": x, "ws": 0, "costs": cp, "overload": ov})
                wexecs.append((len(cmds) * D * (order + 1), cmds))
    # an optimizer re-initialised with a reference problem that differs from its current one in ONE respect (waypoints, boundary states,
    # start time, one duration), evaluated with its built-in and an external workspace, against a second optimizer configured from scratch
    import copy as _copy
    for rep in range(1 if ctx.quick() else 12):
        for order in gen.ORDERS:
            for fam in FAMILIES:
                for what in ("P", "bc", "t0", "oneT"):
                    D = r.choice([1, 2, 3])
                    N = r.choice([1, 2, 3])
                    p1 = gen.OptProblem(r, order, D, N, fam[0], fam[1])
                    p2 = _copy.deepcopy(p1)
                    if what == "P":
                        q = gen.OptProblem(r, order, D, N, fam[0], fam[1])
                        p2.P = q.P
                    elif what == "bc":
                        kk = r.choice(["sv", "ev"] if order == 3 else ["sv", "sa", "ev", "ea"] if order == 5 else ["sv", "sa", "sj", "ev", "ea", "ej"])
                        p2.bc[kk][r.randrange(D)] += 0.75
                    elif what == "t0":
                        p2.t0 = p1.t0 + r.choice([2.5, -1.25])
                    else:
                        i = r.randrange(N)
                        p2.taus_ref[i] = -p2.taus_ref[i] if p2.taus_ref[i] != 0 else 0.25
                        p2.T[i] = p2.totime(p2.taus_ref[i])
                    how = r.choice(["durs", "pts"])
                    x1, x2, cp = gen.hv(p1.x(r)), gen.hv(p2.x(r)), gen.cost_params(r)
                    cmds = [{"op": "reset"}] + p1.cmds_setup(1, how=how)
                    cmds.append({"op": "evaluate", "obj": 1, "x": x1, "ws": 0, "costs": cp, "overload": 3})
                    cmds.append({"op": "evaluate", "obj": 1, "x": x1, "ws": 9, "costs": cp, "overload": 3})
                    cmds.append(p2.cmd_init(1, how))
                    cmds.append({"op": "evaluate", "obj": 1, "x": x2, "ws": 0, "costs": cp, "overload": 3})
                    cmds.append({"op": "evaluate", "obj": 1, "x": x2, "ws": 9, "costs": cp, "overload": 3})
                    cmds.append({"op": "init_guess", "obj": 1})
                    cmds += p2.cmds_setup(2, how=how)
                    cmds.append({"op": "evaluate", "obj": 2, "x": x2, "ws": 0, "costs": cp, "overload": 3})
                    cmds.append({"op": "evaluate", "obj": 2, "x": x2, "ws": 21, "costs": cp, "overload": 3})
                    cmds.append({"op": "init_guess", "obj": 2})
                    wexecs.append((len(cmds) * D * (order + 1), cmds))
    ctx.family, ctx.tracespec, ctx.env_flags = "opt", "TraceOpt", {"VJ_EXACT": "0"}
    replay_and_validate(ctx, vbuild.opt_replay(), balanced(wexecs, 16 if ctx.quick() else 48), "TraceOpt", {"VJ_EXACT": "0"}, label="w")
    return finish(ctx, "model_checking",
                  "TLC explores the life cycle of spline objects (2 objects, sizes 1..3, 2 data variants, both overloads, all query kinds, copy, "
                  "assign) to depth %d with the factor caches modelled entry by entry (ReadsFresh) and rejects three broken twins; one script per "
                  "transition of the abstract graph is generated, a class-balanced seeded sample is expanded with concrete data (variant 2 = "
                  "arbitrary positive durations) and an observation suffix, replayed on all three orders, and every observation must carry the "
                  "same bits as every other observation with the same inputs (memo kept across executions); optimizer workspaces are shared by "
                  "optimizers of different segment counts and re-used in random order, and must give the bits of fresh workspaces" % (depth + 1),
                  TRUSTED, ["bit identity between observations of one binary built -O2 -ffp-contract=off"],
                  props_judged={"C10", "C05", "C11", "C12"})


def tlc_generate_spline(ctx, order, deep=False):
    """wide alphabet: histories of up to 3 calls; deep: narrow alphabet (two sizes, two queries, two overloads), up to 5 calls"""
    from vcheck import tlc_generate
    mo = 5 if order == 7 else order
    key = "gen_o%d%s" % (mo, "_deep" if deep else "")
    if not hasattr(ctx, "_gen"):
        ctx._gen = {}
    if key not in ctx._gen:
        cfg = (mcobj_cfg(mo, 5, True, sizes="{1, 3}", kinds='{"eval", "prop"}', hows='{"ctor_durs", "upd_pts"}') if deep
               else mcobj_cfg(mo, 3, True))
        ctx._gen[key] = tlc_generate(ctx, "MCSplineObj", cfg, "splineobj_o%d%s" % (mo, "_deep" if deep else ""), workers=1)
    return ctx._gen[key]


PLANS = {"C01": plan_C01, "C02": plan_C02, "C04": plan_C04, "C05": plan_C05, "C06": plan_C06, "C10": plan_C10,
         "C13": plan_C13, "C14": plan_C14, "C18": plan_C18}


def replay(prop, path, seed):
    """re-execute one replay file and re-validate it"""
    lines = [json.loads(l) for l in open(path)]
    head = lines[0] if lines and lines[0].get("op") == "note" and "replay_of" in lines[0] else {}
    cmds = lines[1:] if head else lines
    ctx = Ctx(prop or head.get("replay_of", "C00"), "quick", seed)
    fam = head.get("family", "spline")
    ctx.family, ctx.tracespec, ctx.env_flags = fam, head.get("tracespec", "TraceSpline"), head.get("env", {})
    builders = {"spline": vbuild.spline_replay, "ppoly": vbuild.ppoly_replay, "opt": vbuild.opt_replay, "timemap": vbuild.timemap_replay}
    if fam not in builders:
        print("replay: unknown family %r in %s" % (fam, path))
        return 3
    exe = builders[fam]()
    crash_prop = ctx.prop
    replay_and_validate(ctx, exe, [cmds], ctx.tracespec, ctx.env_flags, label="r", crash_prop=crash_prop)
    if fam == "opt" and any(c.get("op") == "evaluate_mt" for c in cmds):
        tsan = vbuild.opt_replay(extra_flags=["-fsanitize=thread", "-O1", "-g"], link_flags=["-fsanitize=thread"], name="opt_replay_tsan")
        run_tsan(ctx, tsan, [cmds], jobs=1)
    for m in ctx.infra:
        print("INFRASTRUCTURE: " + m[:600])
    for d in ctx.devs:
        print("DEVIATION prop=%s code=%s info=%s" % (d["prop"], d["code"], json.dumps(d.get("info"))))
    print("replay: %d deviations" % len(ctx.devs))
    ctx.cleanup()
    return 1 if [d for d in ctx.devs if d["prop"] == ctx.prop] else 0


# ====================================================================== PPolyND family (C03, C11, C16 second sentence, C20)
import bisect

PP_ORDS = (-1, 4, 6, 8, 12)
PP_NSEGS = (1, 2, 5, 31, 32, 33, 40)       # around the linear/binary search threshold (32)


def pp_piece(bp, t):
    n = len(bp) - 1
    if t < bp[0]:
        return 0
    if t >= bp[-1]:
        return n - 1
    return bisect.bisect_right(bp, t) - 1


def pp_data(r, dim, nseg, nc, t0=None, cls="grid"):
    bp = [r.choice([0.0, 0.5, -3.25, 100.0]) if t0 is None else t0]
    for _ in range(nseg):
        bp.append(bp[-1] + (r.dyadic(0.125, 2, 16) if cls == "grid" else r.uniform(0.05, 2.0)))
    C = [[(r.dyadic(-4, 4, 8) if cls == "grid" else r.uniform(-10, 10)) for _ in range(dim)] for _ in range(nseg * nc)]
    return bp, C


def pp_ctor(obj, dim, ord_, bp, C, nc, op="ctor"):
    c = {"op": op, "obj": obj, "dim": dim, "bp": gen.hv(bp), "C": gen.hm(C), "nc": nc}
    if op == "ctor":
        c["ord"] = ord_
    return c


def pp_times(r, bp, dense):
    import math
    ts = [bp[0] - 1e9, bp[0] - 0.25, bp[-1] + 0.25, bp[-1] + 1e9, bp[0], bp[-1]]
    idx = list(range(len(bp)))
    if not dense and len(idx) > 5:
        idx = sorted(set([0, 1, len(bp) - 2, len(bp) - 1] + r.sample(idx, 3)))
    for i in idx:
        ts += [bp[i], math.nextafter(bp[i], -math.inf), math.nextafter(bp[i], math.inf)]
        if i + 1 < len(bp):
            ts.append(0.5 * (bp[i] + bp[i + 1]))
            ts.append(bp[i] + r.random() * (bp[i + 1] - bp[i]))
    return ts


def pp_route_cmds(r, obj, bp, nc, dense):
    nseg = len(bp) - 1
    out = []
    ks = sorted(set([0, 1, max(0, nc - 1), nc, nc + 1, r.randrange(0, nc + 1)]))
    for t in pp_times(r, bp, dense):
        pc = pp_piece(bp, t)
        if nseg <= 5 and dense:
            hs = list(range(-2, nseg + 2))
        else:
            hs = sorted(set([-2, 0, pc - 1, pc, pc + 1, nseg - 1, nseg, nseg + 1, r.randint(-1, nseg)]))
        for k in (ks if dense else r.sample(ks, min(3, len(ks)))):
            for h in (hs if dense else r.sample(hs, min(4, len(hs)))):
                out.append({"op": "routes", "obj": obj, "t": gen.hx(t), "k": k, "hint": h, "seg": pc})
    return out


def pp_sweep_cmds(r, obj, bp, nc, cell):
    ts = pp_times(r, bp, False)
    fw = sorted(ts)
    out = [{"op": "sethint", "cell": cell, "value": r.randint(-3, len(bp) + 2)}]
    for order in (fw, fw[::-1], r.sample(ts, len(ts))):
        for t in order:
            out.append({"op": "eval_hint", "obj": obj, "cell": cell, "t": gen.hx(t), "k": r.choice([0, 1, nc - 1, nc])})
    return out


def pp_structural_execs(r, quick):
    """every ORDER parameter x dimension; segment counts around the search threshold; coefficient counts around the static-table limit"""
    execs = []
    k = 0
    for ord_ in PP_ORDS:
        ncs = [n for n in (1, 2, 4, 6, 8, 9, 12) if ord_ < 0 or n <= ord_]
        for dim in (1, 2, 3, 4):
            combos = [(ns, nc) for ns in PP_NSEGS for nc in ncs]
            if quick:
                r.shuffle(combos)
                # keep the threshold neighbourhood and the table limit represented in every (ord, dim)
                pick = []
                for want in ((31, None), (32, None), (33, None), (1, None), (None, max(ncs)), (None, min(8, max(ncs)))):
                    for c in combos:
                        if (want[0] is None or c[0] == want[0]) and (want[1] is None or c[1] == want[1]) and c not in pick:
                            pick.append(c)
                            break
                combos = pick[:4] if dim > 1 else pick
            for (nseg, nc) in combos:
                k += 1
                bp, C = pp_data(r, dim, nseg, nc, cls=r.choice(["grid", "real"]))
                cmds = [{"op": "reset"}, pp_ctor(1, dim, ord_, bp, C, nc)]
                cmds += pp_route_cmds(r, 1, bp, nc, dense=(nseg <= 5 and not quick) or (nseg <= 2))
                cmds += pp_sweep_cmds(r, 1, bp, nc, 0)
                for i in sorted(set([0, nseg - 1, r.randrange(nseg)])):
                    cmds.append({"op": "seg_info", "obj": 1, "seg": i})
                # stale hints carried across an update to a different size
                bp2, C2 = pp_data(r, dim, max(1, nseg // 2), nc)
                cmds.append(pp_ctor(1, dim, ord_, bp2, C2, nc, op="update"))
                cmds += pp_sweep_cmds(r, 1, bp2, nc, 0)[1:12]
                cmds += pp_route_cmds(r, 1, bp2, nc, dense=False)[:20]
                execs.append((len(cmds) * dim * nc, cmds))
    return execs


PP_NC = {1: 4, 2: 8, 3: 10, 4: 12}   # abstract coefficient counts (model StaticLimit = 2) -> concrete (limit 8); TWO counts above the limit
PP_FIXED = {0: -1, 3: 12, 2: 8}      # abstract order parameter -> concrete ORDER (2 -> 8: ten coefficients are rejected)


def mcppoly_cfg(fixed, maxops, emit, broken="none", ncs="{1, 2, 3}", kinds='{"ok", "few_bp", "row_mismatch"}', evalks="{0, 1, 2, 3}", derivks="{1, 2}", segs="{1, 2}"):
    return ("SPECIFICATION Spec\nCONSTANTS\n  StaticLimit = 2\n  Ids = {1, 2}\n  Fixed = %d\n  Ncs = %s\n  Segs = %s\n  Versions = {1, 2}\n"
            "  MaxOps = %d\n  Emit = %s\n  Broken = \"%s\"\n  KindSet = %s\n  EvalKs = %s\n  DerivKs = %s\n"
            "INVARIANT Inv\nCONSTRAINT EmitScripts\nVIEW View\nCHECK_DEADLOCK FALSE\n"
            % (fixed, ncs, segs, maxops, "TRUE" if emit else "FALSE", broken, kinds, evalks, derivks))


def expand_ppoly_script(r, tabseed, fixed, hist, dim):
    """abstract history from MCPPolyObj -> concrete commands + observation suffix on every live object"""
    ord_ = PP_FIXED[fixed]
    cmds = [{"op": "reset"}]
    live = {}          # obj -> (bp, nc, init)

    # how data version 2 relates to version 1 of the same sizes: independent, the same breakpoints with other coefficients, the same
    # coefficients on other breakpoints, one coefficient entry changed ('nothing changed' shortcuts that compare part of the inputs)
    mode = ("any", "same_bp", "same_C", "one_coef")[(len(hist) + sum(len(str(a)) for a in hist)) % 4]

    def concrete(v, kind, nseg, nc):
        rr = gen.Rng(tabseed * 131 + v * 17 + nseg * 5 + nc)
        cnc = PP_NC[nc]
        cns = {1: 3, 2: 34}[nseg]
        bp, C = pp_data(rr, dim, cns, cnc, t0=0.5)
        if v == 2 and mode != "any":
            r1 = gen.Rng(tabseed * 131 + 1 * 17 + nseg * 5 + nc)
            bp1, C1 = pp_data(r1, dim, cns, cnc, t0=0.5)
            if mode == "same_bp":
                bp = bp1
            elif mode == "same_C":
                C = C1
            else:
                bp, C = bp1, [list(row) for row in C1]
                C[len(C) // 2][0] = C[len(C) // 2][0] + 1.5
        if kind == "few_bp":
            bp, C = bp[:1], []
        elif kind == "row_mismatch":
            C = C + [C[0]]
        return bp, C, cnc
    for a in hist:
        op = a["op"]
        if op in ("ctor", "update"):
            if op == "update" and a["obj"] not in live:
                continue
            bp, C, cnc = concrete(a["v"], a["kind"], a["nseg"], a["nc"])
            cmds.append(pp_ctor(a["obj"], dim, ord_, bp, C, cnc, op=op))
            ok = a["kind"] == "ok" and (ord_ < 0 or cnc <= ord_)
            live[a["obj"]] = (bp, cnc, ok)
        elif op == "eval":
            if a["obj"] in live:
                bp, cnc, ok = live[a["obj"]]
                k = {0: 0, 1: 1, 2: cnc - 1, 3: cnc}[a["k"]]
                if ok:
                    cmds.append({"op": "eval", "obj": a["obj"], "t": gen.hx(bp[1] + 0.03), "k": k})
                else:
                    cmds.append({"op": "eval", "obj": a["obj"], "t": gen.hx(0.7), "k": k})     # rejected: zero for every order
        elif op == "derivative":
            if a["src"] in live:
                bp, cnc, ok = live[a["src"]]
                k = {1: 1, 2: max(1, cnc - 1)}[a["k"]]
                cmds.append({"op": "derivative", "dst": a["dst"], "src": a["src"], "k": k})
                live[a["dst"]] = (bp, max(1, cnc - k), ok)
        elif op in ("copy", "assign"):
            if a["src"] in live and (op == "copy" or a["dst"] in live):
                cmds.append({"op": op, "dst": a["dst"], "src": a["src"]})
                live[a["dst"]] = live[a["src"]]
    for oid in sorted(live):
        bp, cnc, ok = live[oid]
        cmds.append({"op": "info", "obj": oid})
        if ok:
            for t in (bp[0], bp[1], bp[1] + 0.03, bp[-1]):
                for k in (0, 1, cnc - 1):
                    cmds.append({"op": "routes", "obj": oid, "t": gen.hx(t), "k": k, "hint": r.randint(-1, len(bp)), "seg": pp_piece(bp, t)})
            for i in (-2, -1, 0, len(bp) - 2, len(bp) - 1, len(bp)):
                cmds.append({"op": "at", "obj": oid, "i": i})
        else:
            cmds.append({"op": "eval", "obj": oid, "t": gen.hx(0.7), "k": 0})
            for i in (-1, 0, 1):
                cmds.append({"op": "at", "obj": oid, "i": i})
    return cmds


def pp_risk(h):
    """signature of how a history exposes the two lazy caches: what was done to an object (evaluated? derivative taken?)
    between its last (re)initialisation and the next one or an assignment onto it, and how the coefficient count changed"""
    st = {}
    sigs = []
    for a in h:
        if a["op"] in ("ctor", "update"):
            o = a["obj"]
            if a["op"] == "update" and o in st and a["kind"] == "ok" and st[o]["ok"]:
                p0 = st[o]
                sigs.append("upd:ev%d:dv%d:nc%d-%d" % (p0["ev"], p0["dv"], p0["nc"], a["nc"]))
            if a["op"] == "ctor" or o in st:
                st[o] = {"ev": 0, "dv": 0, "nc": a["nc"], "ok": a["kind"] == "ok", "v": (a["v"], a["nseg"], a["nc"])}
        elif a["op"] == "eval" and a["obj"] in st:
            st[a["obj"]]["ev"] = 1
        elif a["op"] == "derivative" and a["src"] in st:
            st[a["src"]]["dv"] = 1
            st[a["dst"]] = {"ev": 0, "dv": 0, "nc": max(1, st[a["src"]]["nc"] - a["k"]), "ok": st[a["src"]]["ok"], "v": ("d", st[a["src"]].get("v"), a["k"])}
        elif a["op"] in ("copy", "assign") and a["src"] in st:
            if a["op"] == "assign" and a["dst"] in st:
                d0, s0 = st[a["dst"]], st[a["src"]]
                if d0["ok"] and s0["ok"]:       # assignment between two usable objects: which caches exist on either side
                    sigs.append("asg:d%d%d:s%d%d:nc%d-%d:%s" % (d0["ev"], d0["dv"], s0["ev"], s0["dv"], d0["nc"], s0["nc"],
                                                               "same" if d0.get("v") == s0.get("v") else "other"))
            st[a["dst"]] = dict(st[a["src"]])
    return "|".join(sigs[-2:])


def pp_lifecycle_execs(ctx, r, nsample):
    """Two passes per ORDER parameter.  Wide alphabet (valid and rejected data, all evaluation orders): histories of up to 3 calls.
    Narrow alphabet (valid data only, coefficient counts above the static-table limit, one evaluation order): histories until the
    abstract graph is exhausted (every abstract edge has a script; 4 calls suffice, the bound is 6).  Every script is followed by
    observations of every live object."""
    from vcheck import tlc_generate
    execs = []
    for fixed in (0, 3, 2):
        wide = tlc_generate(ctx, "MCPPolyObj", mcppoly_cfg(fixed, 3, True, ncs="{1, 3, 4}"), "ppolyobj_f%d" % fixed, workers=1, timeout=900)
        deep = []
        for j, ncs in enumerate(("{3, 4}", "{1, 3}")):
            deep += tlc_generate(ctx, "MCPPolyObj", mcppoly_cfg(fixed, 6, True, ncs=ncs, kinds='{"ok"}', evalks="{1}", derivks="{1}", segs="{1}"),
                                 "ppolyobj_deep_f%d_%d" % (fixed, j), workers=1, timeout=900)
        for scripts, share in ((wide, nsample // 2), (deep, nsample - nsample // 2)):
            groups = {}
            for h in scripts:
                last = h[-1]
                groups.setdefault((last["op"], last.get("kind", ""), len(h), pp_risk(h)), []).append(h)
            per = max(1, share // max(1, len(groups)))
            for g in sorted(groups, key=str):
                hs = groups[g]
                r.shuffle(hs)
                for h in hs[:per]:
                    cmds = expand_ppoly_script(r, ctx.seed, fixed, h, r.choice([1, 2, 3, 4]))
                    execs.append((len(cmds), cmds))
    return execs


def pp_mc(ctx, lookup=True, lifecycle=True):
    if lookup:
        big = not ctx.quick()
        cfg = "SPECIFICATION Spec\nCONSTANTS\n  L = %d\n  MaxSeg = %d\n  Threshold = 3\n  Broken = \"%s\"\nINVARIANT LookupCorrect\nCHECK_DEADLOCK FALSE\n"
        run_mc_text(ctx, "PPolyLookup", cfg % (7 if big else 5, 6 if big else 5, "none"), "PPolyLookup", workers=8)
        for b in ("le", "ub", "nohint"):
            run_mc_text(ctx, "PPolyLookup", cfg % (4, 4, b), "broken twin lookup:" + b, workers=4, expect_violation=True)
    if lifecycle:
        for fixed in (0, 2):
            run_mc_text(ctx, "MCPPolyObj", mcppoly_cfg(fixed, 3 if ctx.quick() else 4, False), "MCPPolyObj(fixed=%d)" % fixed, workers=8, heap="8g")
        for b in ("noinvalidate", "keeptable", "assignkeep"):
            run_mc_text(ctx, "MCPPolyObj", mcppoly_cfg(0, 3, False, b), "broken twin lifecycle:" + b, workers=4, expect_violation=True)
        run_mc_text(ctx, "MCPPolyObj", mcppoly_cfg(0, 4, False, "sharecache", ncs="{3, 4}", kinds='{"ok"}', evalks="{1}", derivks="{1}", segs="{1}"),
                    "broken twin lifecycle:sharecache", workers=4, expect_violation=True)


def pp_finish(ctx, batches, rule, props):
    exe = vbuild.ppoly_replay()
    ctx.family, ctx.tracespec, ctx.env_flags = "ppoly", "TracePPoly", {}
    ctx.samples = [b[1:4] for b in batches[:2]]
    replay_and_validate(ctx, exe, batches, "TracePPoly", {}, crash_prop=ctx.prop)       # a crash of the library on a valid script is a violation
    return finish(ctx, "model_checking", rule, TRUSTED,
                  ["breakpoints strictly increasing and finite; evaluation tolerance 64 ulp-equivalents of sum_k |c_k dt^k| (DESIGN s4)",
                   "bit identity only between observations of one binary"], props_judged=props)


def plan_C03(ctx):
    selftest_rat(ctx)
    pp_mc(ctx)
    r = gen.Rng(ctx.seed * 1000003 + 3)
    execs = pp_structural_execs(r, ctx.quick()) + pp_lifecycle_execs(ctx, r, 150 if ctx.quick() else 3000)
    batches = balanced(execs, 32 if ctx.quick() else 96)
    return pp_finish(ctx, batches,
                     "lookup algorithm transcribed and checked by TLC against the half-open-interval definition for every breakpoint vector on a "
                     "lattice, every time, every hint and every hint history (3 broken twins rejected); on the real class: ORDER in "
                     "{Dynamic,4,6,8,12} x dimension 1..4 x segment counts {1,2,5,31,32,33,40} x coefficient counts 1..12; times on every "
                     "breakpoint, one ulp either side, inside, +-1e9; derivative orders incl. beyond the degree; hints incl. out of range and stale "
                     "across updates; every route (plain, hinted, null hint, batch, enum overloads, [] / at / iterator, derivative trajectory) in one "
                     "event must give identical bits, the exact value of the defined piece within 64 ulp-equivalents, and the hint post-state",
                     {"C03"})


def plan_C11(ctx):
    selftest_rat(ctx)
    pp_mc(ctx, lookup=False)
    r = gen.Rng(ctx.seed * 1000003 + 11)
    execs = pp_lifecycle_execs(ctx, r, 400 if ctx.quick() else 8000)
    batches = balanced(execs, 24 if ctx.quick() else 96)
    rc1 = pp_finish_partial(ctx, batches)
    # spline objects updated after their trajectory has been evaluated: scripts of the spline life-cycle model ending in evaluations
    exe = vbuild.spline_replay()
    tab = ProbTable(ctx.seed)
    sexecs = []
    for order in gen.ORDERS:
        def relevant(h):
            """the trajectory of an object is evaluated, then the object is re-built or assigned to"""
            seen = set()
            for a in h:
                if a["op"] in ("eval", "knots"):
                    seen.add(a["obj"])
                elif (a["op"] == "build" and a["obj"] in seen) or (a["op"] == "assign" and a["dst"] in seen):
                    return True
            return False
        allh = [h for h in tlc_generate_spline(ctx, order) + tlc_generate_spline(ctx, order, deep=True) if relevant(h)]
        r.shuffle(allh)
        byb = [h for h in allh if h[-1]["op"] == "build"]
        bya = [h for h in allh if h[-1]["op"] == "assign"]
        k = 60 if ctx.quick() else 1500
        scripts = byb[:k - k // 3] + bya[:k // 3]
        for h in scripts:
            cmds = expand_spline_script(tab, order, h)
            sexecs.append((len(cmds), cmds))
    ctx.family, ctx.tracespec, ctx.env_flags = "spline", "TraceSpline", {"VJ_KEEPMEMO": "1"}
    replay_and_validate(ctx, exe, balanced(sexecs, 16 if ctx.quick() else 48), "TraceSpline", {"VJ_KEEPMEMO": "1"}, label="s")
    return finish(ctx, "model_checking",
                  "TLC explores the PPolyND life cycle (construct valid/rejected, update same/different sizes, copy, assign, derivative trajectory, "
                  "evaluation at several orders) with the two lazy caches modelled (CacheCoherent, NeverStale, NoSharedCache; 4 broken twins rejected); one script "
                  "per abstract transition, class-balanced sample, expanded on dynamic and fixed ORDER with coefficient counts on both sides of the "
                  "static-table limit and segment counts on both sides of the search threshold; every evaluation must equal the exact value of "
                  "the LATEST data of that object (also after assignment between objects whose caches are in different states: third broken "
                  "twin); spline objects are re-built or assigned to after their trajectory was evaluated and evaluated again",
                  TRUSTED, ["as C03"], props_judged={"C11", "C03", "C10"})


def pp_finish_partial(ctx, batches):
    exe = vbuild.ppoly_replay()
    ctx.family, ctx.tracespec, ctx.env_flags = "ppoly", "TracePPoly", {}
    ctx.samples = [b[1:4] for b in batches[:2]]
    replay_and_validate(ctx, exe, batches, "TracePPoly", {}, crash_prop=ctx.prop)


# ---------------------------------------------------------------------- C20: sampling, length, factories
def c20_execs(r, quick):
    import math
    execs = []
    reps = 2 if quick else 40
    for rep in range(reps):
        for ord_ in PP_ORDS:
            for dim in (1, 2, 3, 4):
                nc = r.choice([n for n in (1, 2, 4, 6, 8, 10, 12) if ord_ < 0 or n <= ord_])
                nseg = r.choice([1, 2, 5, 12])
                bp, C = pp_data(r, dim, nseg, nc, cls=r.choice(["grid", "real"]))
                cmds = [{"op": "reset"}, pp_ctor(1, dim, ord_, bp, C, nc)]
                a, b = bp[0], bp[-1]
                L = b - a
                cases = []
                # full range with steps larger than, equal to, nearly dividing and not dividing the interval
                for dt in (L * 2, L, L / 4, L / 7, L / 3 * (1 + 2 ** -50), L / 5 * (1 - 2 ** -50), 0.1, 0.01 * r.uniform(1, 3), L / 64):
                    cases.append((None, None, dt))
                # sub-ranges and a zero-length interval
                s0 = a + r.random() * L * 0.5
                e0 = s0 + r.random() * (b - s0)
                for dt in ((e0 - s0) / 3, (e0 - s0) / 2.5, 0.05, (e0 - s0) * 1.5):
                    if dt > 0:
                        cases.append((s0, e0, dt))
                cases.append((s0, s0, 0.1))
                for k in (3, 10, 17):            # k dt within a few ulps of the interval, both sides
                    dt = (e0 - s0) / k
                    cases.append((s0, s0 + k * dt, dt))
                    cases.append((s0, math.nextafter(s0 + k * dt, math.inf), dt))
                    cases.append((s0, math.nextafter(s0 + k * dt, -math.inf), dt))
                # the last regular sample falls short of the end by slightly MORE than the 1e-6 end tolerance (absolute, whatever the
                # magnitude of the times): the end must then be appended
                for base in (s0, 1000.0 + s0, -1.0e5 + s0, 1.0e6 + s0):
                    for delta in (1.5e-6, 4e-6, 3e-5, 1e-3):
                        k = r.choice([3, 7, 20])
                        dt = r.choice([0.125, 0.1, 0.37])
                        cases.append((base, base + k * dt + delta, dt))
                        cases.append((base, base + k * dt - delta, dt))
                for (s, e, dt) in cases:
                    if dt <= 0 or (e is not None and e < s):
                        continue
                    span = (e - s) if s is not None else L
                    if span / dt > 4000 or dt < 2 ** -20 * max(1.0, abs(a), abs(b)):
                        continue
                    c = {"op": "tseq", "obj": 1, "dt": gen.hx(dt)}
                    if s is not None:
                        c["start"], c["end"] = gen.hx(s), gen.hx(e)
                    cmds.append(c)
                    c2 = dict(c)
                    c2["op"] = "length"
                    cmds.append(c2)
                ts = pp_times(r, bp, False)
                for k in (0, 1, nc):
                    cmds.append({"op": "batch", "obj": 1, "ts": gen.hv(ts), "k": k})
                # factories
                fnc = r.choice([n for n in (1, 2, 3, 8, 9, 12) if ord_ < 0 or n <= ord_])
                cmds.append({"op": "factory", "obj": 2, "dim": dim, "ord": ord_, "which": "zero", "bp": gen.hv(bp), "nc": fnc})
                cmds.append({"op": "factory", "obj": 3, "dim": dim, "ord": ord_, "which": "zero", "bp": gen.hv(bp)})
                val = [r.choice([r.dyadic(-8, 8, 8), r.uniform(-100, 100), 0.0]) for _ in range(dim)]
                cmds.append({"op": "factory", "obj": 4, "dim": dim, "ord": ord_, "which": "constant", "bp": gen.hv(bp), "val": gen.hv(val)})
                cmds.append({"op": "factory", "obj": 5, "dim": dim, "ord": ord_, "which": "zero", "bp": gen.hv(bp[:1]), "nc": 1})
                for oid, fn in ((2, fnc), (3, 1), (4, 1)):
                    for t in ts[:10]:
                        for k in (0, 1, 2, fn):
                            cmds.append({"op": "eval", "obj": oid, "t": gen.hx(t), "k": k})
                execs.append((len(cmds) * dim, cmds))
    return execs


def plan_C20(ctx):
    selftest_rat(ctx)
    run_mc_text(ctx, "TimeSeq", "SPECIFICATION Spec\nCONSTANTS\n  MaxLen = %d\n  Broken = \"none\"\nINVARIANT Contract\nCHECK_DEADLOCK FALSE\n" % (12 if ctx.quick() else 24), "TimeSeq", workers=4)
    run_mc_text(ctx, "TimeSeq", "SPECIFICATION Spec\nCONSTANTS\n  MaxLen = 8\n  Broken = \"onesided\"\nINVARIANT Contract\nCHECK_DEADLOCK FALSE\n", "broken twin timeseq:onesided", workers=2, expect_violation=True)
    r = gen.Rng(ctx.seed * 1000003 + 20)
    batches = balanced(c20_execs(r, ctx.quick()), 32 if ctx.quick() else 96)
    return pp_finish(ctx, batches,
                     "time sequences over full range, sub-ranges and zero-length intervals with steps larger than, equal to, nearly dividing (k*dt "
                     "within an ulp of the interval on both sides) and not dividing the interval; contract judged exactly on the logged bits; length "
                     "against the exact left Riemann sum over the recorded sequence (square roots bracketed to 1e-30); batch = pointwise bits; "
                     "zero/constant factories on ORDER in {Dynamic,4,6,8,12} x dimension 1..4: initialised on the given breakpoints, exact values",
                     {"C20"})


PLANS.update({"C03": plan_C03, "C11": plan_C11, "C20": plan_C20})


# ====================================================================== C17: time maps
def c17_lattices(r, quick):
    import math, struct

    def ulps(x, k):
        for _ in range(abs(k)):
            x = math.nextafter(x, math.inf if k > 0 else -math.inf)
        return x
    taus = set()
    # every double within 64 ulps of 0 (subnormals) and of the branch-related values, both signs
    for k in range(-64, 65):
        taus.add(ulps(0.0, k))
    for base in (1.0, -1.0, 2.0, -2.0, 0.5, -0.5, math.sqrt(2) - 1, 1 - math.sqrt(2)):
        for k in range(-8, 9):
            taus.add(ulps(base, k))
    for e in range(0, 1075, 8):
        taus.add(2.0 ** -e)
        taus.add(-(2.0 ** -e))
    # adjacent-double pairs at many magnitudes
    nm = 60 if quick else 200
    for i in range(nm):
        m = 10.0 ** r.uniform(-12, 6) * r.choice([-1, 1])
        for k in range(0, 6):
            taus.add(ulps(m, k))
    for _ in range(4000 if quick else 100000):
        taus.add(r.choice([-1, 1]) * 10.0 ** r.uniform(-9, 6))
        taus.add(r.uniform(-3, 3))
    taus = sorted(t for t in taus if abs(t) <= 1e6)
    Ts = set()
    for k in range(-32, 33):
        Ts.add(ulps(1.0, k))
    for i in range(nm):
        m = 10.0 ** r.uniform(-6, 6)
        for k in range(0, 4):
            Ts.add(ulps(m, k))
    for _ in range(3000 if quick else 100000):
        Ts.add(10.0 ** r.uniform(-6, 6))
        Ts.add(r.uniform(0.5, 2.0))
    Ts = sorted(t for t in Ts if 1e-6 <= t <= 1e6)
    return taus, Ts


def plan_C17(ctx):
    selftest_rat(ctx)
    run_mc(ctx, "MCTimeMap", "MCTimeMap.cfg", workers=8, timeout=600)
    run_mc_text(ctx, "MCTimeMap", open(os.path.join(vbuild.VERIF, "spec", "MCTimeMap.cfg")).read().replace('Broken = "none"', 'Broken = "negderiv"'),
                "broken twin timemap:negderiv", workers=2, expect_violation=True)
    exe = vbuild.timemap_replay()
    r = gen.Rng(ctx.seed * 1000003 + 17)
    taus, Ts = c17_lattices(r, ctx.quick())
    chunk = 250
    batches = []
    for mp in ("quad", "identity"):
        cmds = []
        tt = taus if mp == "quad" else taus[::7]
        for i in range(0, len(tt), chunk):
            seg = tt[max(0, i - 1):i + chunk]        # overlap by one so that adjacency is judged across chunks too
            cmds.append({"op": "totime", "map": mp, "taus": gen.hv(seg)})
            cmds.append({"op": "tau_roundtrip", "map": mp, "taus": gen.hv(seg)})
            cmds.append({"op": "backward", "map": mp, "taus": gen.hv(seg), "gs": gen.hv([r.choice([1.0, -2.5, r.uniform(-100, 100), 0.0]) for _ in seg])})
        TT = Ts if mp == "quad" else Ts[::7]
        for i in range(0, len(TT), chunk):
            cmds.append({"op": "totau", "map": mp, "Ts": gen.hv(TT[i:i + chunk])})
        # split into batches of ~12 events
        for i in range(0, len(cmds), 12):
            batches.append(cmds[i:i + 12])
    ctx.family, ctx.tracespec, ctx.env_flags = "timemap", "TraceTimeMap", {}
    ctx.samples = [{"taus_sample": gen.hv(taus[:3] + taus[len(taus) // 2:len(taus) // 2 + 3]), "n_taus": len(taus), "n_T": len(Ts)}]
    replay_and_validate(ctx, exe, batches, "TraceTimeMap", {})
    ctx.traces = len(batches)
    return finish(ctx, "model_checking",
                  "optimisation variables: every double within 64 ulps of 0 and within 8 ulps of +-1/2, +-1, +-2, +-(sqrt2-1); +-2^-k down to the "
                  "subnormals; adjacent-double runs at random magnitudes; log-uniform and uniform random; |tau| <= 1e6; durations likewise in "
                  "[1e-6, 1e6] incl. 32 ulps around 1; sorted, so monotonicity is judged on adjacent doubles; every value judged against the exact "
                  "rational map (relative 1e-13; inverse through the exact forward map, relative 1e-9)",
                  TRUSTED, ["domain of DESIGN s4 (|tau| <= 1e6, T in [1e-6, 1e6])"], props_judged={"C17"},
                  extra_cov={"distinct_nontrivial": len(taus) + len(Ts)})


PLANS.update({"C17": plan_C17})


# ====================================================================== SplineOptimizer family (C07, C08, C09, C15, C16, C19, C12)
FAMILIES = (("quad", "id"), ("quad", "lift"), ("sq", "id"), ("sq", "lift"))


def mc_optmath(ctx):
    return run_mc(ctx, "MCOptMath", "MCOptMath_quick.cfg" if ctx.quick() else "MCOptMath_thorough.cfg", workers=12, timeout=3000, heap="8g", coverage=False)


OPT_ALPHABET = ("new", "init_empty", "destroy", "get_dim", "init_guess", "init", "flags", "smap", "tmap", "evaluate", "copy", "assign", "map_new", "map_mutate")


def mcoptobj_cfg(maxops, emit, broken="none", ids="{1, 2}", maps="{1}", alphabet=OPT_ALPHABET, problems="{1, 2, 3}"):
    return ("SPECIFICATION Spec\nCONSTANTS\n  Ids = %s\n  Maps = %s\n  MaxOps = %d\n  Emit = %s\n  Broken = \"%s\"\n  Alphabet = {%s}\n  ProblemIds = %s\n"
            "INVARIANT Inv\nCONSTRAINT EmitScripts\nVIEW View\nCHECK_DEADLOCK FALSE\n"
            % (ids, maps, maxops, "TRUE" if emit else "FALSE", broken, ", ".join('"%s"' % a for a in alphabet), problems))


def mc_optobj(ctx):
    run_mc_text(ctx, "MCOptObj", mcoptobj_cfg(4 if ctx.quick() else 6, False), "MCOptObj", workers=12, heap="10g")
    for b in ("flagsnodirty", "smapnodirty", "verbatim", "sharews"):
        run_mc_text(ctx, "MCOptObj", mcoptobj_cfg(4, False, b), "broken twin optobj:" + b, workers=4, expect_violation=True)


def regress_batch(family, env):
    """scripts of earlier false alarms and misses (regress/<family>/*.ndjson, replay-file format), re-judged by every run with the same
    environment of the trace specification"""
    d = os.path.join(vbuild.VERIF, "regress", family)
    cmds = []
    for f in sorted(os.listdir(d)) if os.path.isdir(d) else []:
        lines = [json.loads(l) for l in open(os.path.join(d, f)) if l.strip()]
        if lines and lines[0].get("op") == "note":
            if lines[0].get("env", {}) != env:
                continue
            lines = lines[1:]
        if lines and lines[0].get("op") != "reset":
            lines = [{"op": "reset"}] + lines
        cmds.extend(lines)
    return [cmds] if cmds else []


def opt_finish(ctx, batches, env, rule, props, exe=None, level="model_checking", crash_prop=None):
    exe = exe or vbuild.opt_replay()
    crash_prop = crash_prop or ctx.prop        # a crash (assertion, segmentation fault) of the library on a generated script is a violation
    batches = list(batches) + regress_batch("opt", env)
    ctx.family, ctx.tracespec, ctx.env_flags = "opt", "TraceOpt", env
    ctx.samples = ctx.samples or [[c for c in b if c.get("op") in ("opt_new", "set_flags", "evaluate")][:3] for b in batches[:2]]
    replay_and_validate(ctx, exe, batches, "TraceOpt", env, crash_prop=crash_prop)
    return finish(ctx, level, rule, TRUSTED,
                  ["time variables in [-1/2, 1/2] so that the decoded durations are well scaled (DESIGN s4); at most 40 unknowns per exact solve",
                   "user cost functors from the polynomial family of harness/opt_iface.hpp (depends on p, v, a, j, s, global time, segment index)"],
                  props_judged=props)


def flag_list(bits):
    return [bool((bits >> k) & 1) for k in range(8)]


def c07_execs(r, quick, rec):
    execs = []
    k = 0
    reps = 1 if quick else 20
    for rep in range(reps):
        for order in gen.ORDERS:
            for bits in range(256):
                k += 1
                nmax = {3: 8, 5: 6, 7: 5}[order]          # (order + 1) N <= 40 unknowns of the exact solve
                if quick:
                    N = nmax - (k // 16) % 2 if k % 16 == 0 else 1 + (k + rep) % 4
                else:
                    N = 1 + (k + rep) % (nmax if rep % 2 else 4)
                D = 1 + (k // 4 + rep) % 4
                if N > 4:
                    D = 1 + (k // 16 + rep) % 2
                tm, sm = FAMILIES[(k // 16 + rep) % 4]
                K = (1, 2, 3, 8, 64)[(k + 2 * rep) % 5]
                if K == 64 and N * D > 6:
                    K = 8 if rep % 2 == 0 else 64
                # one in three problems with the user time map has a large or small overall time scale (durations of minutes / of
                # hundredths of a second): the properties bound the ratio of durations, not their size
                tscale = (64.0, 1.0 / 64, 512.0)[(k // 3) % 3] if (tm == "sq" and k % 3 == 0) else 1.0
                p = gen.OptProblem(r, order, D, N, tm, sm, flags=flag_list(bits), K=K, rho=(0.0, 0.5, 2.0)[(k + rep) % 3], scale=tscale)
                if tscale != 1.0:
                    cmds = [{"op": "reset"}, {"op": "tmap_new", "map": 1, "scale": gen.hx(tscale)}] + p.cmds_setup(1, user_tmap=1, how="durs" if k % 3 else "pts")
                else:
                    cmds = [{"op": "reset"}] + p.cmds_setup(1, how="durs" if k % 3 else "pts")
                # several evaluations per optimizer; workspaces (built-in = 0, external = 3) are REUSED across calls with other
                # decision vectors and other cost functors: per-call buffers must be re-initialised by every call
                wss = (0, 0, 3, 3) if k % 2 else (3, 0, 3, 0)
                for e in range(3 if quick else 4):
                    # between evaluations on the same workspaces the configuration changes: more / fewer integration steps, another
                    # energy weight (tables sized or filled for the previous configuration must not survive)
                    if e >= 1 and k % 2 == 0:
                        K2 = {1: 2, 2: 3, 3: 8, 8: 3, 64: 8}[K] if e == 1 else {1: 3, 2: 8, 3: 2, 8: 2, 64: 3}[K]
                        if N * D * K2 <= 96:
                            cmds.append({"op": "set_steps", "obj": 1, "K": K2})
                        cmds.append({"op": "set_energy", "obj": 1, "rho": gen.hx((0.5, 2.0, 0.0)[(k + e) % 3])})
                    cmds.append({"op": "evaluate", "obj": 1, "x": gen.hv(p.x(r)), "ws": wss[e], "costs": gen.cost_params(r),
                                 "overload": 3 if (k + e) % 4 else 2, "rec": bool(rec and K <= 8 and e == 0),
                                 "gout": ("fresh", "dirty", "reuse", "big", "reuse")[(k + e) % 5]})
                execs.append((N * D * (order + 1) * (K + 4), cmds))
    return execs


def plan_C07(ctx):
    selftest_rat(ctx)
    mc_optmath(ctx)
    r = gen.Rng(ctx.seed * 1000003 + 7)
    batches = balanced(c07_execs(r, ctx.quick(), False), 48 if ctx.quick() else 128)
    return opt_finish(ctx, batches, {},
                      "all 256 flag settings x 3 orders, with N 1..4 (and up to 8/6/5 segments for cubic/quintic/septic in dimension 1..2), dimension 1..4, {default, user} time map x {identity, reduced-dof user} spatial "
                      "map, energy weight {0, 0.5, 2}, steps {1,2,3,8,64} and both overloads cycled; cost functors depend on p, v, a, j, s, global "
                      "time and segment index; every gradient component compared with the exact gradient of the exact cost (OptMath!Grad, itself "
                      "checked against exact central differences by TLC on a grid)", {"C07"})


def plan_C08(ctx):
    selftest_rat(ctx)
    mc_optmath(ctx)
    r = gen.Rng(ctx.seed * 1000003 + 8)
    batches = balanced(c07_execs(r, ctx.quick(), True), 48 if ctx.quick() else 128)
    return opt_finish(ctx, batches, {},
                      "as C07, with a recording running-cost functor: returned cost against time + waypoint + K-step trapezoid + weighted energy "
                      "computed exactly; every recorded sample (segment index, local time k T/K, global time, p v a j s) against the exact minimiser; "
                      "sample count N (K+1) and each (segment, k) exactly once; two-cost overload = three-cost with zero waypoint cost (TLC theorem)",
                      {"C08"})


# ---------------------------------------------------------------------- C09
def c09_config_execs(r, quick):
    execs = []
    k = 0
    for order in gen.ORDERS:
        for bits in range(256):
            for N in range(1, 7):
                for D in (1, 2, 3):
                    for sm in ("id", "lift"):
                        k += 1
                        if quick and (k + bits) % 8 != 0:
                            continue
                        tm = ("quad", "sq")[(k // 3) % 2]
                        p = gen.OptProblem(r, order, D, N, tm, sm, flags=flag_list(bits), K=1, rho=0.0)
                        cmds = [{"op": "reset"}] + p.cmds_setup(1)
                        cmds += [{"op": "get_dim", "obj": 1}, {"op": "init_guess", "obj": 1},
                                 {"op": "evaluate", "obj": 1, "x": gen.hv(p.x(r, "marker")), "ws": 0, "costs": {"ta": gen.hx(1.0)}, "overload": 2},
                                 {"op": "get_optimal", "obj": 1},
                                 {"op": "evaluate", "obj": 1, "x": gen.hv(p.x(r)), "ws": 2, "costs": {"ta": gen.hx(1.0)}, "overload": 3}]
                        execs.append((N * D + 3, cmds))
    return execs


# pairs of concrete flag settings standing for the two abstract settings of the reconfiguration model; they include pairs
# that differ only by WHICH end point / boundary block is optimised (same counts), so that a cache keyed on counts is exposed
OPT_FLAGPAIRS = (
    ([False, True, False, False, False, False, True, False], [True, False, True, True, True, True, False, True]),
    ([True, False, False, False, False, False, False, False], [False, False, False, False, True, False, False, False]),     # start_p <-> end_p
    ([True, True, False, False, False, False, False, False], [False, False, False, False, True, True, False, False]),       # start side <-> end side
    ([False, True, False, False, False, False, False, False], [False, False, False, False, False, True, False, False]),     # start_v <-> end_v
    ([False, False, True, False, False, False, False, True], [False, False, False, True, False, False, True, False]),       # sa,ej <-> sj,ea
    ([True, False, False, False, True, False, False, False], [False, False, False, False, False, False, False, False]),
)


def expand_opt_script(r, hist, order, D, tm, sm, exact):
    """abstract history from MCOptObj -> concrete commands; problems v=1 (N=1), v=2 (N=2), v=3 (N=2, invalid: a NaN waypoint)"""
    OPT_FLAGSETS = dict(enumerate(OPT_FLAGPAIRS[(len(hist) + sum(len(a) for a in hist) + r.randrange(2)) % len(OPT_FLAGPAIRS)]))
    if r.random() < 0.5:
        OPT_FLAGSETS = {0: OPT_FLAGSETS[1], 1: OPT_FLAGSETS[0]}
    cmds = [{"op": "reset"}]
    probs = {}
    cur = {}       # obj -> OptProblem-like state (problem, flags, smap user?, tmap user?)
    maps = set()

    def problem(v):
        if v not in probs:
            rr = gen.Rng(1000 + v * 7 + order + D)
            probs[v] = gen.OptProblem(rr, order, D, 1 if v == 1 else 2, tm, sm, flags=[False] * 8, K=2, rho=0.5)
        return probs[v]
    for a in hist:
        op = a["op"]
        if op == "opt_new":
            cmds.append({"op": "opt_new", "obj": a["obj"], "order": order, "dim": D, "tm": tm, "sm": sm})
            cur[a["obj"]] = {"p": None, "flags": [False] * 8, "valid": False, "um": False, "ut": False}
        elif op == "set_init":
            p = problem(a["v"])
            c = p.cmd_init(a["obj"], "durs")
            if a["v"] == 3:
                c["P"][1][0] = "nan"
            cmds.append(c)
            cur[a["obj"]].update({"p": p, "valid": a["v"] != 3})
        elif op == "set_init_empty":
            p = problem(1)
            c = p.cmd_init(a["obj"], "pts")
            c["tp"] = []
            cmds.append(c)
            cur[a["obj"]]["valid"] = False
        elif op == "set_flags":
            cmds.append({"op": "set_flags", "obj": a["obj"], "flags": OPT_FLAGSETS[a["f"]]})
            cur[a["obj"]]["flags"] = OPT_FLAGSETS[a["f"]]
        elif op in ("set_smap", "set_tmap"):
            cmds.append({"op": op, "obj": a["obj"], "map": a["map"]})
            cur[a["obj"]]["um" if op == "set_smap" else "ut"] = a["map"] != 0
        elif op == "map_new":
            # one abstract user map = one user time map and one user spatial map (ids 1 and 101)
            cmds.append({"op": "tmap_new", "map": a["map"], "scale": gen.hx(0.75)})
            cmds.append({"op": "smap_new", "map": a["map"], "gain": gen.hx(0.5)})
            maps.add(a["map"])
        elif op == "map_mutate":
            cmds.append({"op": "tmap_set", "map": a["map"], "scale": gen.hx(r.choice([0.5, 1.25, 1.5]))})
            cmds.append({"op": "smap_set", "map": a["map"], "gain": gen.hx(r.choice([0.125, 0.75, -0.5]))})
        elif op in ("get_dim", "init_guess"):
            st = cur[a["obj"]]
            if st["p"] is not None and (op == "get_dim" or st["valid"]):
                cmds.append({"op": op, "obj": a["obj"]})
        elif op == "evaluate":
            st = cur[a["obj"]]
            if st["p"] is not None and st["valid"]:
                cmds.append(opt_eval_cmd(r, a["obj"], st, sm, tm, 0 if a["own"] else 7))
        elif op in ("opt_copy", "opt_assign"):
            cmds.append({"op": op, "dst": a["dst"], "src": a["src"]})
            cur[a["dst"]] = dict(cur[a["src"]])
            # what the copy and its source expose right now, before any further evaluation overwrites a workspace
            cmds.append({"op": "get_optimal", "obj": a["dst"]})
            if a["src"] != a["dst"]:
                cmds.append({"op": "get_optimal", "obj": a["src"]})
        elif op == "opt_destroy":
            cmds.append({"op": "opt_destroy", "obj": a["obj"]})
            del cur[a["obj"]]
    # observation suffix: every live, validly configured optimizer is queried and evaluated with its built-in workspace
    for oid in sorted(cur):
        cmds.append({"op": "get_optimal", "obj": oid})
    for oid in sorted(cur):
        st = cur[oid]
        cmds.append({"op": "verdict", "obj": oid})
        if st["p"] is not None:
            cmds.append({"op": "get_dim", "obj": oid})
            if st["valid"]:
                cmds.append({"op": "init_guess", "obj": oid})
                cmds.append(opt_eval_cmd(r, oid, st, sm, tm, 0))
        cmds.append({"op": "get_optimal", "obj": oid})
    return cmds


def opt_eval_cmd(r, oid, st, sm, tm, ws):
    p = st["p"]
    # the spatial map in use decides the layout: a user spatial map exists only in the "lift" families (there it has the same shape as the default)
    n, _, _ = gen.opt_layout(p.order, p.D, p.N, st["flags"], sm)
    rr = gen.Rng(n * 31 + p.N)
    x = [rr.dyadic(-0.5, 0.5, 8) for _ in range(p.N)] + [rr.dyadic(-4, 4, 4) for _ in range(n - p.N)]
    return {"op": "evaluate", "obj": oid, "x": gen.hv(x), "ws": ws, "costs": gen.cost_params(gen.Rng(5)), "overload": 3}


def opt_history_execs(ctx, r, nsample, families, exact=True, maxops=3, ids="{1, 2}", maps="{1}", simulate=None, alphabet=OPT_ALPHABET, problems="{1, 2, 3}"):
    from vcheck import tlc_generate
    scripts = tlc_generate(ctx, "MCOptObj", mcoptobj_cfg(maxops, True, ids=ids, maps=maps, alphabet=alphabet, problems=problems),
                           "optobj" + ids.replace(" ", "").replace(",", "_").strip("{}") + "m" + str(len(maps)) + "d" + str(maxops) + "a" + str(len(alphabet)) + ("sim" if simulate else ""),
                           workers=1, timeout=900, heap="8g", simulate=simulate)
    if simulate:      # long random walks: keep them all
        execs = []
        for k, h in enumerate(scripts):
            tm, sm = families[k % len(families)]
            order = gen.ORDERS[k % 3]
            D = (2, 3, 1)[k % 3] if sm == "lift" else (1, 2, 3)[k % 3]
            cmds = expand_opt_script(r, h, order, D, tm, sm, exact)
            execs.append((len(cmds) * D, cmds))
        return execs
    READERS = ("get_dim", "init_guess", "evaluate")
    SETTERS = ("set_flags", "set_smap", "set_init", "opt_assign")

    def stale_risk(h):
        """signature of the way a history exposes hidden cache state, or "" if it does not:
        a setter that changes the layout AFTER a reader has built the cache, or a copy/assignment between two optimizers whose
        caches are in different states (one read since its last setter, the other not)"""
        clean, usable = {}, {}      # obj -> cache built since the last setter? / holds a valid problem?
        umap = {}                   # obj -> (user time map bound?, user spatial map bound?)
        sig = ""
        for a in h:
            o = a.get("obj")
            if a["op"] in ("set_tmap", "set_smap"):
                t, sp = umap.get(o, (False, False))
                umap[o] = (a["map"] != 0, sp) if a["op"] == "set_tmap" else (t, a["map"] != 0)
            if a["op"] == "set_init":
                usable[o] = a["v"] in (1, 2)
            elif a["op"] == "set_init_empty":
                usable[o] = False
            if a["op"] in READERS:
                if usable.get(o, False):
                    clean[o] = True
            elif a["op"] in SETTERS and a["op"] != "opt_assign":
                if clean.get(o, False) and (a["op"] != "set_init" or usable.get(o, False)):
                    sig = sig or "%s-after-reader" % a["op"]
                clean[o] = False
            elif a["op"] in ("opt_assign", "opt_copy"):
                d, sr = a["dst"], a["src"]
                if d != sr and usable.get(sr, False) and clean.get(d, False) != clean.get(sr, False):
                    sig = sig or "%s:dst-%s:src-%s" % (a["op"], "clean" if clean.get(d, False) else "dirty", "clean" if clean.get(sr, False) else "dirty")
                if d != sr and usable.get(sr, False) and umap.get(d, (False, False)) != umap.get(sr, (False, False)):
                    sig = sig or "%s:dstmaps-%s:srcmaps-%s" % (a["op"], umap.get(d, (False, False)), umap.get(sr, (False, False)))
                clean[d] = clean.get(sr, False)
                usable[d] = usable.get(sr, False)
                umap[d] = umap.get(sr, (False, False))
            elif a["op"] == "opt_destroy":
                clean.pop(o, None)
                usable.pop(o, None)
        return sig
    groups = {}
    for h in scripts:
        last = h[-1]
        groups.setdefault((last["op"], len(h), last.get("own", ""), last.get("map", ""), stale_risk(h)), []).append(h)
    # half of the budget goes to the histories with a setter after a reader, the rest is spread evenly over all classes
    nrisky = max(1, len([g for g in groups if g[-1]]))
    per = max(1, nsample // (2 * max(1, len(groups))))
    per_risky = max(per, nsample // (2 * nrisky))
    execs = []
    k = 0
    for g in sorted(groups, key=str):
        hs = groups[g]
        r.shuffle(hs)
        for h in hs[:(per_risky if g[-1] else per)]:
            k += 1
            tm, sm = families[k % len(families)]
            order = gen.ORDERS[k % 3]
            D = (2, 3, 1)[k % 3] if sm == "lift" else (1, 2, 3)[k % 3]
            cmds = expand_opt_script(r, h, order, D, tm, sm, exact)
            execs.append((len(cmds) * D, cmds))
    return execs


def c09_mapswap_execs(r, quick):
    """user spatial maps that differ in the number of unconstrained coordinates of ONE point (first, an inner one, the last): an optimizer
    whose layout has been read is re-bound from one to the other (and back to its default map) and read again; a second optimizer bound
    to the new map from the start gives the same script its fresh reference (everything is judged exactly by the specification anyway)"""
    execs = []
    k = 0
    for order in gen.ORDERS:
        for D in (2, 3):
            for N in (1, 2, 3):
                for pin in sorted(set((0, N // 2 if N > 1 else 0, N))):
                    for (first, second) in ((-1, pin), (pin, -1), (pin, "default"), ("default", pin)):
                        k += 1
                        if quick and (k + order) % 2:
                            continue
                        flags = [True, k % 2 == 0, False, False, True, k % 3 == 0, False, False]
                        p = gen.OptProblem(r, order, D, N, "sq" if k % 2 else "quad", "lift", flags=flags, K=2, rho=0.5)
                        cmds = [{"op": "reset"}, {"op": "smap_new", "map": 1, "gain": gen.hx(0.5), "pin": -1 if first == "default" else first},
                                {"op": "smap_new", "map": 2, "gain": gen.hx(0.5), "pin": -1 if second == "default" else second}]
                        cmds += p.cmds_setup(1, user_smap=None if first == "default" else 1)

                        def reads(obj, pn):
                            n, _, _ = gen.opt_layout(order, D, N, flags, "lift", pin=pn)
                            x = [r.dyadic(-0.5, 0.5, 8) for _ in range(N)] + [(17 + q) / 8.0 for q in range(n - N)]
                            return [{"op": "get_dim", "obj": obj}, {"op": "init_guess", "obj": obj},
                                    {"op": "evaluate", "obj": obj, "x": gen.hv(x), "ws": 0, "costs": gen.cost_params(r), "overload": 3}]
                        pin1 = -1 if first == "default" else first
                        pin2 = -1 if second == "default" else second
                        cmds += reads(1, pin1)[: 1 + k % 3]                      # the layout has been read (by one, two or all three readers)
                        cmds.append({"op": "set_smap", "obj": 1, "map": 0 if second == "default" else 2})
                        cmds += reads(1, pin2)
                        cmds += p.cmds_setup(2, user_smap=None if second == "default" else 2)
                        cmds += reads(2, pin2)
                        execs.append((len(cmds) * D * (order + 1), cmds))
    return execs


def c09_flagdrop_execs(r, quick):
    """deterministic family: a workspace (built-in and external) is used with some quantity flagged, then the flag is dropped (or another one
    raised) without re-initialisation, and the same workspaces are used again: what is no longer optimised is pinned to the reference
    again, whatever the workspace held"""
    execs = []
    k = 0
    for order in gen.ORDERS:
        for (tm, sm) in FAMILIES:
            for bit in range(8):
                k += 1
                if quick and (k + order) % 2:
                    continue
                D, N = 1 + k % 3, 1 + (k // 3) % 3
                fa = [bool((k >> q) & 1) for q in range(8)]
                fa[bit] = True
                fb = list(fa)
                fb[bit] = False
                fb[(bit + 3) % 8] = not fb[(bit + 3) % 8]
                p = gen.OptProblem(r, order, D, N, tm, sm, flags=fa, K=2, rho=0.5)
                cmds = [{"op": "reset"}] + p.cmds_setup(1)

                def evals(flags):
                    n, _, _ = gen.opt_layout(order, D, N, flags, sm)
                    x = [r.dyadic(-0.5, 0.5, 8) for _ in range(N)] + [(17 + q) / 8.0 for q in range(n - N)]
                    cp = gen.cost_params(r)
                    return [{"op": "evaluate", "obj": 1, "x": gen.hv(x), "ws": w, "costs": cp, "overload": 3} for w in (0, 7)] + \
                           [{"op": "get_optimal", "obj": 1}]
                cmds += evals(fa)
                cmds.append({"op": "set_flags", "obj": 1, "flags": fb})
                cmds += [{"op": "get_dim", "obj": 1}, {"op": "init_guess", "obj": 1}] + evals(fb)
                cmds.append({"op": "set_flags", "obj": 1, "flags": fa})
                cmds += evals(fa)
                execs.append((len(cmds) * D * (order + 1), cmds))
    return execs


def plan_C09(ctx):
    selftest_rat(ctx)
    mc_optmath(ctx)
    mc_optobj(ctx)
    r = gen.Rng(ctx.seed * 1000003 + 9)
    execs = c09_config_execs(r, ctx.quick())
    mexecs = c09_mapswap_execs(r, ctx.quick()) + c09_flagdrop_execs(r, ctx.quick())
    # reconfiguration histories: two optimizers up to 4 calls, and ONE optimizer up to 6 calls (setter / query / setter / query ...)
    hexecs = opt_history_execs(ctx, r, 200 if ctx.quick() else 5000, FAMILIES) + \
        opt_history_execs(ctx, r, 1200 if ctx.quick() else 20000, FAMILIES, maxops=5, ids="{1}") + \
        ([] if ctx.quick() else opt_history_execs(ctx, r, 0, FAMILIES, maxops=12, simulate=(600, 12)))
    ctx.samples = [[c for c in execs[0][1] if c.get("op") in ("set_flags", "get_dim", "evaluate")][:3]]
    b1 = balanced(execs, 48 if ctx.quick() else 128)
    exe = vbuild.opt_replay()
    ctx.family, ctx.tracespec, ctx.env_flags = "opt", "TraceOpt", {"VJ_EXACT": "0"}
    replay_and_validate(ctx, exe, b1, "TraceOpt", {"VJ_EXACT": "0"})
    return opt_finish(ctx, balanced(hexecs + mexecs, 24 if ctx.quick() else 64), {}, 
                      "layout laws are TLC theorems on a grid (MCOptMath) and the lazily rebuilt layout cache is explored exhaustively with every "
                      "setter / reader / copy interleaving (MCOptObj, 4 broken twins rejected); on the real class all 256 flag settings x 3 orders x "
                      "N 1..6 x dimension 1..3 x {identity, reduced-dof} spatial map (quick: a 1/8 sample containing every flag setting x order): "
                      "getDimension, initial guess (decodes to the reference; exact parts bit-identical), evaluation of a marker vector (decoded "
                      "durations / waypoints / boundary blocks, pinned quantities bit-identical to the reference, getOptimalSpline is that spline); "
                      "plus one script per transition of the reconfiguration model, plus re-binding between user spatial maps that differ in the dof of one "
                      "point (first / inner / last) after the layout has been read, plus flags dropped and raised between evaluations on the same workspaces", {"C09"})


def c15_ownership_execs(r):
    """deterministic family (not sampled): every way of making a copy (copy construction, assignment onto a fresh / onto a configured
    optimizer) x every map binding of the source (default maps, user time map, user spatial map, both) x what happens to the source
    afterwards (destroyed and poisoned, re-initialised and re-flagged, user map mutated, nothing) x order x stateful map family"""
    execs = []
    k = 0
    for order in gen.ORDERS:
        for (tm, sm) in (("sq", "lift"), ("quad", "lift"), ("sq", "id")):
            binds = [(False, False)] + ([(True, False)] if tm == "sq" else []) + ([(False, True)] if sm == "lift" else []) + \
                    ([(True, True)] if tm == "sq" and sm == "lift" else [])
            for (ut, um) in binds:
                for how in ("copy", "assign_fresh", "assign_configured"):
                    for after in ("destroy", "reconfigure", "mutate", "nothing"):
                        if after == "mutate" and not (ut or um):
                            continue
                        k += 1
                        D = (2, 3)[k % 2]
                        h = []
                        if ut or um:
                            h.append({"op": "map_new", "map": 1})
                        h.append({"op": "opt_new", "obj": 1})
                        if ut:
                            h.append({"op": "set_tmap", "obj": 1, "map": 1})
                        if um:
                            h.append({"op": "set_smap", "obj": 1, "map": 1})
                        h += [{"op": "set_init", "obj": 1, "v": 1 + k % 2}, {"op": "set_flags", "obj": 1, "f": 1}]
                        if k % 3:
                            h.append({"op": "evaluate", "obj": 1, "own": True})
                        if how == "copy":
                            h.append({"op": "opt_copy", "dst": 2, "src": 1})
                        else:
                            h.append({"op": "opt_new", "obj": 2})
                            if how == "assign_configured":
                                h += [{"op": "set_init", "obj": 2, "v": 2 - k % 2}, {"op": "set_flags", "obj": 2, "f": 0}, {"op": "evaluate", "obj": 2, "own": True}]
                            h.append({"op": "opt_assign", "dst": 2, "src": 1})
                        if after == "destroy":
                            h.append({"op": "opt_destroy", "obj": 1})
                        elif after == "reconfigure":
                            h += [{"op": "set_init", "obj": 1, "v": 2 - k % 2}, {"op": "set_flags", "obj": 1, "f": 0}]
                        elif after == "mutate":
                            h.append({"op": "map_mutate", "map": 1})
                        cmds = expand_opt_script(r, h, order, D, tm, sm, True)
                        execs.append((len(cmds) * D, cmds))
    return execs


def plan_C15(ctx):
    selftest_rat(ctx)
    mc_optobj(ctx)
    r = gen.Rng(ctx.seed * 1000003 + 15)
    # stateful map families: a dangling pointer into a destroyed (poisoned) optimizer reads garbage deterministically
    fams = (("sq", "lift"), ("sq", "id"), ("quad", "lift"), ("sq", "lift"))
    hexecs = opt_history_execs(ctx, r, 400 if ctx.quick() else 12000, fams, maxops=4 if not ctx.quick() else 3)
    # two optimizers, no user maps, up to 7 calls: long enough for "configure both, use one, assign the other onto it, use it"
    hexecs += opt_history_execs(ctx, r, 900 if ctx.quick() else 30000, fams, maxops=6, maps="{}")
    # two optimizers and a user map, calls restricted to construction / initialisation / set maps / copy / assign / destroy, up to 7
    # calls: "bind one to user maps, assign the other (default maps) onto it, use it" and the like
    hexecs += opt_history_execs(ctx, r, 1200 if ctx.quick() else 7000, fams, maxops=6, problems="{1, 2}",
                                alphabet=("new", "init", "smap", "tmap", "copy", "assign", "map_new", "destroy"))
    if not ctx.quick():     # long random walks of 12 calls over two optimizers and a user map (TLC -simulate)
        hexecs += opt_history_execs(ctx, r, 0, fams, maxops=12, simulate=(600, 12))
    hexecs += c15_ownership_execs(r)
    # spline-object copies
    tab = ProbTable(ctx.seed)
    sexecs = []
    for order in gen.ORDERS:
        scripts = [h for h in tlc_generate_spline(ctx, order) if any(a["op"] in ("copy", "assign") for a in h)]
        r.shuffle(scripts)
        for h in scripts[:80 if ctx.quick() else 2000]:
            cmds = expand_spline_script(tab, order, h)
            sexecs.append((len(cmds), cmds))
    ctx.family, ctx.tracespec, ctx.env_flags = "spline", "TraceSpline", {"VJ_KEEPMEMO": "1"}
    replay_and_validate(ctx, vbuild.spline_replay(), balanced(sexecs, 16 if ctx.quick() else 48), "TraceSpline", {"VJ_KEEPMEMO": "1"}, label="s")
    if not ctx.quick():
        asan = vbuild.opt_replay(extra_flags=["-fsanitize=address", "-O1", "-g", "-DOPT_FREE_ON_DESTROY"], link_flags=["-fsanitize=address"], name="opt_replay_asan")
        run_asan(ctx, asan, balanced(hexecs, 16), "C15")
    return opt_finish(ctx, balanced(hexecs, 32 if ctx.quick() else 96), {},
                      "(thorough tier: the same scripts also run on an AddressSanitizer build in which destroyed optimizers are freed) "
                      "ownership model explored exhaustively by TLC (construct, copy-construct, assign incl. self and onto an optimizer owning a "
                      "workspace, set maps, evaluate with built-in / external workspace, mutate user map, destroy; NoDangling, NoSharedWorkspace; "
                      "broken twins 'verbatim pointer copy' and 'shared workspace' rejected); one script per transition, replayed with STATEFUL "
                      "default and user maps on optimizers placement-constructed in an arena that is overwritten with 0xA5 on destruction; every "
                      "evaluation of every live object must equal the exact cost/gradient of ITS OWN configuration, built-in workspaces have "
                      "distinct addresses; spline-object copies judged by bit identity", {"C15", "C07", "C08", "C09", "C10"}, crash_prop="C15")


# ---------------------------------------------------------------------- C16
def c16_execs(r, quick):
    import math
    execs = []
    one_ms = 1e-3
    durvals = [("ok", 0.5), ("1ms", one_ms), ("below", math.nextafter(one_ms, 0.0)), ("above", math.nextafter(one_ms, 1.0)), ("half", 0.5e-3), ("zero", 0.0),
               ("neg", -0.25), ("nan", float("nan")), ("inf", float("inf")), ("ninf", float("-inf"))]
    bad = [float("nan"), float("inf"), float("-inf")]
    for order in gen.ORDERS:
        for N in (1, 2, 3):
            for D in (1, 2, 3):
                if quick and (order + N + D) % 2:
                    continue
                fam = FAMILIES[(order + N + D) % 4]
                base = gen.OptProblem(r, order, D, N, fam[0], fam[1])
                cmds = [{"op": "reset"}, {"op": "opt_new", "obj": 1, "order": order, "dim": D, "tm": fam[0], "sm": fam[1]}]

                def init(mod, how="durs"):
                    c = base.cmd_init(1, how)
                    mod(c)
                    cmds.append(c)
                init(lambda c: None)
                # every single placement of a non-finite value
                for bv in bad:
                    init(lambda c: c.__setitem__("t0", gen.hx(bv)))
                    for i in range(N):
                        init(lambda c: c["T"].__setitem__(i, gen.hx(bv)))
                    for i in range(N + 1):
                        for col in range(D):
                            init(lambda c: c["P"][i].__setitem__(col, gen.hx(bv)))
                    for f in ("sv", "sa", "sj", "ev", "ea", "ej"):
                        for col in range(D):
                            init(lambda c: c["bc"][f].__setitem__(col, gen.hx(bv)))
                    # the time-point overload
                    for i in range(N + 1):
                        init(lambda c: c["tp"].__setitem__(i, gen.hx(bv)), "pts")
                # durations on both sides of the one-millisecond threshold, every position
                for (nm, dv) in durvals:
                    for i in range(N):
                        init(lambda c: c["T"].__setitem__(i, gen.hx(dv)))
                # time points whose difference sits at the threshold
                for dv in (one_ms, math.nextafter(one_ms, 0.0), 2 * one_ms, 0.0, -0.5):
                    def mod(c):
                        tp = [0.0]
                        for i in range(N):
                            tp.append(tp[-1] + (dv if i == N - 1 else 0.5))
                        c["tp"] = gen.hv(tp)
                    init(mod, "pts")
                # size mismatches
                init(lambda c: c.__setitem__("P", c["P"][:-1]))
                init(lambda c: c.__setitem__("P", c["P"] + [c["P"][0]]))
                init(lambda c: (c.__setitem__("T", []), c.__setitem__("P", c["P"][:1])))
                init(lambda c: c.__setitem__("T", c["T"] + [gen.hx(0.5)]))
                init(lambda c: c.__setitem__("tp", []), "pts")
                init(lambda c: c.__setitem__("tp", c["tp"][:1]), "pts")
                # sequences valid / invalid / valid on the same object, with verdict queries in between
                init(lambda c: None)
                cmds.append({"op": "verdict", "obj": 1})
                init(lambda c: c["P"][0].__setitem__(0, "nan"))
                cmds.append({"op": "verdict", "obj": 1})
                init(lambda c: c.__setitem__("tp", []), "pts")
                cmds.append({"op": "verdict", "obj": 1})
                init(lambda c: None, "pts")
                cmds.append({"op": "verdict", "obj": 1})
                # verdicts of copies: a copy / an assigned optimizer has the verdict AND the message state of its source (valid source
                # onto one that reported an error, invalid source onto a valid one, onto a fresh one, copy construction of either)
                def init_on(obj, mod, how="durs"):
                    c = base.cmd_init(obj, how)
                    mod(c)
                    cmds.append(c)
                nan0 = lambda c: c["P"][0].__setitem__(0, "nan")
                new = lambda obj: cmds.append({"op": "opt_new", "obj": obj, "order": order, "dim": D, "tm": fam[0], "sm": fam[1]})
                for (src_ok, dst_state, how) in ((True, "invalid", "assign"), (False, "valid", "assign"), (True, "fresh", "assign"), (False, "fresh", "assign"),
                                                 (True, None, "copy"), (False, None, "copy")):
                    new(2)
                    init_on(2, (lambda c: None) if src_ok else nan0)
                    if how == "copy":
                        cmds.append({"op": "opt_copy", "dst": 3, "src": 2})
                    else:
                        new(3)
                        if dst_state != "fresh":
                            init_on(3, (lambda c: None) if dst_state == "valid" else nan0)
                        cmds.append({"op": "opt_assign", "dst": 3, "src": 2})
                    cmds.append({"op": "verdict", "obj": 3})
                    cmds.append({"op": "verdict", "obj": 2})
                    cmds += [{"op": "opt_destroy", "obj": 3}, {"op": "opt_destroy", "obj": 2}]
                if not quick:      # pairs of faults
                    for _ in range(40):
                        def mod2(c):
                            for _k in range(2):
                                w = r.choice(["t0", "T", "P", "bc"])
                                bvv = gen.hx(r.choice(bad + [0.0, -1.0, 0.5e-3]))
                                if w == "t0":
                                    c["t0"] = bvv
                                elif w == "T":
                                    c["T"][r.randrange(N)] = bvv
                                elif w == "P":
                                    c["P"][r.randrange(N + 1)][r.randrange(D)] = bvv
                                else:
                                    c["bc"][r.choice(["sv", "sa", "sj", "ev", "ea", "ej"])][r.randrange(D)] = bvv
                        init(mod2)
                execs.append((len(cmds), cmds))
    return execs


def c16_ppoly_execs(r, quick):
    execs = []
    for ord_ in PP_ORDS:
        for dim in (1, 2, 3, 4):
            cmds = [{"op": "reset"}]
            oid = 0
            for nseg in (1, 3):
                for nc in (1, 4, 8, 9, 12, 13):
                    bp, C = pp_data(r, dim, nseg, nc)
                    variants = [("ok", bp, C, nc), ("no_bp", [], [], nc), ("one_bp", bp[:1], [], nc), ("rows_short", bp, C[:-1], nc), ("rows_long", bp, C + [C[0]], nc),
                                ("nc_zero", bp, [], 0), ("nc_wrong", bp, C, nc + 1)]
                    for (nm, b, c, n) in variants:
                        oid += 1
                        cmds.append(pp_ctor(oid, dim, ord_, b, c, n))
                        for i in (-2, -1, 0, nseg - 1, nseg, nseg + 1):
                            cmds.append({"op": "at", "obj": oid, "i": i})
                        cmds.append({"op": "eval", "obj": oid, "t": gen.hx(bp[0] + 0.01), "k": 0})
                        # valid -> invalid -> valid on the same object; first the variant DIRECTLY after a valid state (a rejected update must
                        # not leave the old or a half-updated object behind), incl. coefficient counts that do not fit although the number
                        # of breakpoints and the number of coefficient rows are those of the current valid state
                        cmds.append(pp_ctor(oid, dim, ord_, bp, C, nc, op="update"))
                        cmds.append(pp_ctor(oid, dim, ord_, b, c, n, op="update"))
                        cmds += [{"op": "info", "obj": oid}, {"op": "at", "obj": oid, "i": 0}, {"op": "eval", "obj": oid, "t": gen.hx(bp[0] + 0.01), "k": 0}]
                        if nm == "ok":
                            for n2 in sorted(set((0, 1, 2, 3, nc - 1, nc + 1, 2 * nc, nseg * nc)) - {nc}):
                                if n2 < 0:
                                    continue
                                cmds.append(pp_ctor(oid, dim, ord_, bp, C, nc, op="update"))
                                cmds.append(pp_ctor(oid, dim, ord_, bp, C, n2, op="update"))
                                cmds += [{"op": "info", "obj": oid}, {"op": "at", "obj": oid, "i": 0}]
                        cmds.append(pp_ctor(oid, dim, ord_, bp, C, nc, op="update"))
                        cmds.append(pp_ctor(oid, dim, ord_, bp[:1], [], nc, op="update"))
                        cmds.append({"op": "at", "obj": oid, "i": 0})
                        cmds.append(pp_ctor(oid, dim, ord_, b, c, n, op="update"))
                        cmds.append({"op": "info", "obj": oid})
            execs.append((len(cmds), cmds))
    return execs


def plan_C16(ctx):
    selftest_rat(ctx)
    mc_optobj(ctx)
    pp_mc(ctx, lookup=False)
    r = gen.Rng(ctx.seed * 1000003 + 16)
    pexecs = c16_ppoly_execs(r, ctx.quick()) + pp_lifecycle_execs(ctx, r, 100 if ctx.quick() else 2000)
    ctx.family, ctx.tracespec, ctx.env_flags = "ppoly", "TracePPoly", {}
    replay_and_validate(ctx, vbuild.ppoly_replay(), balanced(pexecs, 16 if ctx.quick() else 48), "TracePPoly", {}, label="p", crash_prop="C16")
    batches = balanced(c16_execs(r, ctx.quick()), 32 if ctx.quick() else 96)
    return opt_finish(ctx, batches, {"VJ_EXACT": "0"},
                      "optimizer: for every order x N 1..3 x dimension 1..3, every single placement of NaN / +Inf / -Inf in the start time, each "
                      "duration, each waypoint coordinate, each boundary field (incl. those the order does not use) and each time point; durations at "
                      "1 ms, one ulp either side, half, zero, negative, non-finite, in every position and through both overloads; size mismatches; "
                      "valid/invalid/valid sequences on one object (thorough: random pairs of faults); return value, isValid, operator bool, "
                      "message presence and checkValidity judged against Valid(inputs, order); PPolyND: every rejection kind on fixed and dynamic "
                      "ORDER, valid/rejected/valid updates, at(i) for i in -2..nseg+1",
                      {"C16"})


# ---------------------------------------------------------------------- C19
def c19_execs(r, quick):
    execs = []
    k = 0
    for rep in range(1 if quick else 16):
        for order in gen.ORDERS:
            for (N, D) in ((1, 1), (2, 1), (2, 2), (1, 2), (3, 1)):
                for fam in FAMILIES:
                    k += 1
                    bits = r.randrange(256)
                    p = gen.OptProblem(r, order, D, N, fam[0], fam[1], flags=flag_list(bits), K=r.choice([1, 2, 4]), rho=r.choice([0.0, 0.5]))
                    cmds = [{"op": "reset"}] + p.cmds_setup(1)
                    lies = [None,
                            (1, r.randrange(N), 0, r.choice([0.5, -1.0])), (2, r.randrange(N + 1), r.randrange(D), r.choice([0.5, 2.0])),
                            (3, r.randrange(N), r.randrange(D), 1.0), (4, r.randrange(N), r.randrange(D), 2.0), (5, r.randrange(N), 0, 1.0),
                            (6, r.randrange(N), r.randrange(D), 4.0), (4, r.randrange(N), r.randrange(D), 1e-9), (1, 0, 0, 1e-10)]
                    for li, lie in enumerate(lies if not quick else [None, lies[1 + k % 6], lies[7 + k % 2]]):
                        c = {"op": "check_grad", "obj": 1, "x": gen.hv(p.x(r)), "ws": (0, 4)[(k + li) % 2], "costs": gen.cost_params(r, lie),
                             "overload": 2 if (lie and lie[0] != 2 and (k + li) % 3 == 0) else 3}
                        if (k + li) % 2:
                            c["eps"], c["tol"] = gen.hx(1e-5), gen.hx(1e-3)
                        cmds.append(c)
                    # verdicts on both sides of a NON-default tolerance, through both overloads: the passed tolerance must be the one used
                    for (lm, tol) in ((3e-5, 1e-6), (2e-3, 1e-2), (3e-5, 1e-3), (2e-3, 1e-6)):
                        lie = (1, r.randrange(N), 0, lm)
                        cmds.append({"op": "check_grad", "obj": 1, "x": gen.hv(p.x(r)), "ws": 0, "costs": gen.cost_params(r, lie),
                                     "overload": 2 if (k + int(lm * 1e6)) % 2 else 3, "eps": gen.hx(1e-6), "tol": gen.hx(tol)})
                    cmds.append({"op": "evaluate", "obj": 1, "x": gen.hv(p.x(r)), "ws": 0, "costs": gen.cost_params(r), "overload": 3})
                    execs.append((len(cmds) * N * D * (order + 1), cmds))
    return execs


def plan_C19(ctx):
    selftest_rat(ctx)
    run_mc(ctx, "SelfCheck", "SelfCheck.cfg", workers=4, timeout=600)
    run_mc_text(ctx, "SelfCheck", open(os.path.join(vbuild.VERIF, "spec", "SelfCheck.cfg")).read().replace('Broken = "none"', 'Broken = "norestore"'),
                "broken twin selfcheck:norestore", workers=2, expect_violation=True)
    r = gen.Rng(ctx.seed * 1000003 + 19)
    batches = balanced(c19_execs(r, ctx.quick()), 32 if ctx.quick() else 96)
    return opt_finish(ctx, batches, {},
                      "the self-check procedure is a small TLA+ state machine (perturb +, evaluate, perturb -, evaluate, restore, final evaluation "
                      "at x) checked by TLC (broken twin 'no restore' rejected); on the real class: 3 orders x small (N, D) x 4 map families x random "
                      "flags, correct functors and functors with one wrong claimed partial derivative in the time, waypoint or running cost (p, v, a "
                      "or explicit-time component), far above and far below the tolerance, both overloads, default and explicit eps/tol; analytical "
                      "gradient against the exact pipeline result for the CLAIMED partials, numerical gradient against the exact TRUE gradient "
                      "(rounding bound eps_mach |cost| / eps), error norms by their definitions, verdict = (norm < tol) and expected verdict wherever "
                      "the exact quantities separate it from the threshold by 10x, workspace spline afterwards = decode of the checked vector",
                      {"C19"})


PLANS.update({"C07": plan_C07, "C08": plan_C08, "C09": plan_C09, "C15": plan_C15, "C16": plan_C16, "C19": plan_C19})


# ====================================================================== C12: schedule independence and concurrent evaluation
def optconc_cfg(evals, npoints, nsegs, workers, mode, prior):
    return ("SPECIFICATION Spec\nCONSTANTS\n  Evals = %s\n  NPoints = %d\n  NSegs = %d\n  Workers = %s\n  Mode = \"%s\"\n  Prior = %s\nINVARIANT Inv\nCHECK_DEADLOCK FALSE\n"
            % (evals, npoints, nsegs, workers, mode, "TRUE" if prior else "FALSE"))


def c12_execs(r, quick):
    import itertools
    execs = []
    k = 0
    for rep in range(1 if quick else 12):
        for order in gen.ORDERS:
            for N in (1, 2, 3, 4):
                for fam in (FAMILIES if not quick else FAMILIES[(order + N) % 4:(order + N) % 4 + 1] + FAMILIES[:1]):
                    k += 1
                    D = 1 + (k % 3)
                    p = gen.OptProblem(r, order, D, N, fam[0], fam[1], K=r.choice([1, 2, 3]))
                    cmds = [{"op": "reset"}] + p.cmds_setup(1) + p.cmds_setup(2)
                    cp = gen.cost_params(r)
                    xs = [gen.hv(p.x(r)) for _ in range(4)]
                    ov = 3 if k % 3 else 2
                    # reference values: the same calls made one after another on an identically configured second optimizer
                    for x in xs:
                        cmds.append({"op": "evaluate", "obj": 2, "x": x, "ws": 0, "costs": cp, "overload": ov})
                    # concurrent evaluations on the FRESHLY configured optimizer 1 (no prior single-threaded call), then again
                    nt = 2 + k % 3
                    cmds.append({"op": "evaluate_mt", "obj": 1, "xs": xs[:nt], "costs": cp, "overload": ov, "rounds": 1})
                    cmds.append({"op": "evaluate_mt", "obj": 1, "xs": xs[:nt][::-1], "costs": cp, "overload": ov, "rounds": 3})
                    # every permutation of the segment order (N <= 4) and partitions onto 2..3 threads, through user-level executors
                    perms = list(itertools.permutations(range(N)))
                    if quick and len(perms) > 6:
                        perms = r.sample(perms, 6)
                    for pm in perms:
                        cmds.append({"op": "evaluate", "obj": 1, "x": xs[0], "ws": 5, "costs": cp, "overload": ov, "exec": {"kind": "perm", "perm": list(pm)}})
                    owners = set()
                    for nth in (2, 3):
                        for _ in range(3 if quick else 8):
                            owners.add((nth, tuple(r.randrange(nth) for _ in range(N))))
                    for (nth, ow) in sorted(owners):
                        cmds.append({"op": "evaluate", "obj": 1, "x": xs[1], "ws": 0, "costs": cp, "overload": ov,
                                     "exec": {"kind": "threads", "threads": nth, "owner": list(ow)}})
                    cmds.append({"op": "evaluate", "obj": 1, "x": xs[2], "ws": 0, "costs": cp, "overload": ov, "exec": {"kind": "default"}})
                    execs.append((len(cmds) * N * D * (order + 1), cmds))
    return execs


def _strip_templates(t):
    out, depth = [], 0
    for ch in t:
        if ch == "<":
            depth += 1
        elif ch == ">":
            depth = max(0, depth - 1)
        elif depth == 0:
            out.append(ch)
    return "".join(out)


def run_tsan(ctx, exe, batches, jobs=8):
    """replay the scripts on the ThreadSanitizer build; every distinct data-race report becomes a deviation"""
    import re as _re
    from concurrent.futures import ThreadPoolExecutor

    def one(ib):
        i, cmds = ib
        base = os.path.join(ctx.work, "t%03d" % i)
        gen.write_script(base + ".script.ndjson", cmds)
        env = dict(os.environ)
        env["TSAN_OPTIONS"] = "halt_on_error=0 report_signal_unsafe=0 exitcode=0 history_size=4"
        try:
            p = subprocess.run([exe, base + ".script.ndjson", base + ".trace.ndjson"], capture_output=True, text=True, timeout=1500, env=env)
        except subprocess.TimeoutExpired:
            return (i, None, "timeout")
        return (i, p.stderr, None if p.returncode == 0 else "rc=%d" % p.returncode)
    with ThreadPoolExecutor(max_workers=jobs) as ex:
        res = list(ex.map(one, enumerate(batches)))
    nrep = 0
    for (i, err, bad) in res:
        if bad:
            ctx.infra.append("ThreadSanitizer replay %d failed: %s" % (i, bad))
            continue
        reports = err.split("WARNING: ThreadSanitizer: data race")[1:]
        seen = set()
        for rep in reports:
            # a report concerns the library if a frame of one of its stacks is a function of namespace SplineTrajectory (judged on the
            # function name with template arguments stripped: file and line are often unavailable for inlined code)
            lib, where = [], []
            for ln in rep.split("\n"):
                m = _re.match(r"\s+#\d+ (.*) (<null>|\S+?:\d+(?::\d+)?) \(", ln)
                if not m:
                    continue
                fn = _strip_templates(m.group(1)).split("(")[0]
                if "SplineTrajectory::" in fn:
                    lib.append(fn.split("SplineTrajectory::", 1)[1])
                    if ".hpp:" in m.group(2):
                        where.append(os.path.basename(m.group(2)))
            key = tuple(sorted(set(lib)))[:4]
            if not key or key in seen:
                continue
            seen.add(key)
            nrep += 1
            funcs = list(key)
            key = tuple(sorted(set(where)))[:4]
            ctx.devs.append({"prop": "C12", "code": "tsan.race", "info": {"where": [os.path.basename(x) for x in key], "functions": funcs},
                             "line": 1, "exec": 1, "batch": i, "script": os.path.join(ctx.work, "t%03d.script.ndjson" % i)})
    ctx.stats["tsan_replays"] = len(batches)
    ctx.stats["tsan_reports"] = nrep


def run_asan(ctx, exe, batches, prop, jobs=8):
    """replay the scripts on an AddressSanitizer build in which destroyed optimizers are really freed: every report is a deviation"""
    import re as _re
    from concurrent.futures import ThreadPoolExecutor

    def one(ib):
        i, cmds = ib
        base = os.path.join(ctx.work, "a%03d" % i)
        gen.write_script(base + ".script.ndjson", cmds)
        env = dict(os.environ)
        env["ASAN_OPTIONS"] = "halt_on_error=1 detect_leaks=0 exitcode=0 abort_on_error=0"
        try:
            p = subprocess.run([exe, base + ".script.ndjson", base + ".trace.ndjson"], capture_output=True, text=True, timeout=1500, env=env)
        except subprocess.TimeoutExpired:
            return (i, "", "timeout")
        return (i, p.stderr, None)
    with ThreadPoolExecutor(max_workers=jobs) as ex:
        res = list(ex.map(one, enumerate(batches)))
    n = 0
    for (i, err, bad) in res:
        if bad:
            ctx.infra.append("AddressSanitizer replay %d failed: %s" % (i, bad))
            continue
        m = _re.search(r"ERROR: AddressSanitizer: ([a-z-]+)", err)
        if m:
            n += 1
            locs = sorted(set(_re.findall(r"(Spline\w+\.hpp:\d+)", err)))[:4]
            ctx.devs.append({"prop": prop, "code": "asan." + m.group(1), "info": {"where": locs}, "line": 1, "exec": 1, "batch": i,
                             "script": os.path.join(ctx.work, "a%03d.script.ndjson" % i)})
    ctx.stats["asan_replays"] = len(batches)
    ctx.stats["asan_reports"] = n


def plan_C12(ctx):
    selftest_rat(ctx)
    q = ctx.quick()
    # the history of accesses is an order-free set judged at each access (OptConcurrent.tla), so three and four evaluators are exhaustive
    run_mc_text(ctx, "OptConcurrent", optconc_cfg("{1, 2, 3}", 3, 2, "{1, 2}", "locked", False), "OptConcurrent(locked, fresh, 3 evaluators x 3 points x 2 tasks x 2 workers)", workers=12, heap="8g", coverage=False)
    run_mc_text(ctx, "OptConcurrent", optconc_cfg("{1, 2, 3}", 2, 2, "{1, 2}", "unlocked", True), "OptConcurrent(unlocked, prior call, 3 evaluators)", workers=8, coverage=False)
    run_mc_text(ctx, "OptConcurrent", optconc_cfg("{1}", 1, 3, "{1, 2}", "locked", False), "OptConcurrent(executor: 3 tasks, 2 workers)", workers=8, coverage=False)
    if not q:
        run_mc_text(ctx, "OptConcurrent", optconc_cfg("{1, 2, 3, 4}", 2, 2, "{1, 2}", "locked", False), "OptConcurrent(4 evaluators)", workers=12, heap="10g", coverage=False, timeout=2400)
        run_mc_text(ctx, "OptConcurrent", optconc_cfg("{1, 2, 3}", 4, 3, "{1, 2}", "locked", False), "OptConcurrent(3 evaluators, 4 points, 3 tasks)", workers=12, heap="10g", coverage=False, timeout=2400)
    run_mc_text(ctx, "OptConcurrent", optconc_cfg("{1, 2}", 2, 1, "{1}", "unlocked", False), "broken twin: lazy fill without synchronisation", workers=4, expect_violation=True, coverage=False)
    run_mc_text(ctx, "OptConcurrent", optconc_cfg("{1}", 1, 2, "{1, 2}", "intask", False), "broken twin: reduction inside the tasks", workers=4, expect_violation=True, coverage=False)
    r = gen.Rng(ctx.seed * 1000003 + 12)
    execs = c12_execs(r, q)
    batches = balanced(execs, 32 if q else 96)
    tsan = vbuild.opt_replay(extra_flags=["-fsanitize=thread", "-O1", "-g"], link_flags=["-fsanitize=thread"], name="opt_replay_tsan")
    run_tsan(ctx, tsan, balanced(execs, 8 if q else 16))
    return opt_finish(ctx, batches, {},
                      "TLC explores every interleaving of 3 (thorough: 4) concurrent evaluators with the lazy layout fill split into its steps, "
                      "and of executor tasks on 2 workers, under a happens-before definition of a data race (2 broken twins rejected: unsynchronised "
                      "lazy fill; reduction moved into the per-segment task); on the real class: every permutation of the segment order for N <= 4 "
                      "and random partitions onto 2..3 threads through user-level executors, 2..4 threads evaluating concurrently on one freshly "
                      "configured optimizer (no prior single-threaded call) and again afterwards, each with its own workspace - all results must "
                      "have the bits of the same calls made one after another on an identically configured optimizer; the same scripts are replayed "
                      "on a ThreadSanitizer build and every reported race in the library is a deviation",
                      {"C12"}, crash_prop="C12")


PLANS.update({"C12": plan_C12})
