"""Script generation helpers: deterministic data from (VERIF_SEED, case id).

The structure of what is exercised (which call, which object, which order / dimension / size class / overload) is
enumerated - by TLC for the lifecycle families, exhaustively by loops here for the numeric families; this module only
fills in the data.  Reals are written as C99 hex-float strings so that the exact bits reach the specification."""
import json, math, random

ORDERS = (3, 5, 7)
RMAX = {3: 1000.0, 5: 20.0, 7: 4.0}     # well-scaled domain W(order), DESIGN s4


def hx(x):
    x = float(x)
    if math.isnan(x):
        return "nan"
    if math.isinf(x):
        return "inf" if x > 0 else "-inf"
    h = x.hex()                      # '0x1.9800000000000p+2'  ->  glibc %a form '0x1.98p+2'
    m, e = h.split("p")
    if "." in m:
        m = m.rstrip("0")
        if m.endswith("."):
            m = m[:-1]
    return m + "p" + e


def hv(v):
    return [hx(x) for x in v]


def hm(m):
    return [hv(r) for r in m]


class Rng(random.Random):
    def dyadic(self, lo, hi, den=16):
        """uniform multiple of 1/den in [lo, hi]"""
        return self.randint(int(math.ceil(lo * den)), int(math.floor(hi * den))) / den

    def data_value(self, cls):
        if cls == "grid":
            return self.dyadic(-8, 8, 8)
        if cls == "real":
            return self.uniform(-100, 100)
        if cls == "big":
            return self.dyadic(-8, 8, 8) * 2.0 ** 40
        if cls == "zero":
            return 0.0
        raise ValueError(cls)

    def durations_W(self, order, n, dyadic):
        """duration vector in W(order): ratio <= RMAX, geometric mean in [0.1, 10]"""
        rmax = RMAX[order]
        for _ in range(1000):
            if dyadic:
                # multiples of 1/16 with bounded ratio
                base = self.choice([0.25, 0.5, 1.0, 2.0, 4.0])
                hi = base * min(rmax, self.choice([1.0, 2.0, 4.0, rmax]))
                t = [self.dyadic(base, max(base, hi), 16) for _ in range(n)]
            else:
                scale = math.exp(self.uniform(math.log(0.2), math.log(5.0)))
                r = math.exp(self.uniform(0, math.log(min(rmax, self.choice([2.0, 4.0, rmax])))))
                t = [scale * math.exp(self.uniform(0, math.log(r))) for _ in range(n)]
            if min(t) <= 0:
                continue
            if max(t) / min(t) > rmax * 0.999:
                continue
            gm = math.exp(sum(math.log(x) for x in t) / n)
            if 0.11 <= gm <= 9.0:
                return t
        return [1.0] * n

    def durations_any(self, n):
        """any positive durations, ratios up to 1e6"""
        scale = math.exp(self.uniform(math.log(1e-3), math.log(1e3)))
        return [scale * math.exp(self.uniform(0, math.log(self.choice([2.0, 100.0, 1e6])))) for _ in range(n)]

    def start_time(self):
        return self.choice([0.0, 0.0, 1.5, -2.25, 1e6, -1e6, 123456.789, 7.0 / 3.0])

    def problem(self, order, dim, n, tdom="W", dcls=None, dyadic=None, t0=None):
        dcls = dcls or self.choice(["grid", "grid", "real", "real", "big"])
        dyadic = self.random() < 0.5 if dyadic is None else dyadic
        if tdom == "W":
            T = self.durations_W(order, n, dyadic)
        elif tdom == "any":
            T = self.durations_any(n)
        else:
            T = list(tdom)
        P = [[self.data_value(dcls) for _ in range(dim)] for _ in range(n + 1)]
        bc = {k: [self.data_value(dcls if dcls != "zero" else "grid") for _ in range(dim)] for k in ("sv", "sa", "sj", "ev", "ea", "ej")}
        return {"order": order, "dim": dim, "T": T, "P": P, "bc": bc, "t0": self.start_time() if t0 is None else t0, "dcls": dcls}


def build_cmd(obj, pr, how="ctor_durs", bcar=6):
    c = {"op": "build", "obj": obj, "order": pr["order"], "dim": pr["dim"], "how": how, "bcar": bcar,
         "P": hm(pr["P"]), "bc": {k: hv(v) for k, v in pr["bc"].items()}}
    if how.endswith("durs"):
        c["T"] = hv(pr["T"])
        c["t0"] = hx(pr["t0"])
    else:
        tp = [pr["t0"]]
        for t in pr["T"]:
            tp.append(tp[-1] + t)
        c["tp"] = hv(tp)
    return c


def write_script(path, cmds):
    with open(path, "w") as f:
        for c in cmds:
            f.write(json.dumps(c, separators=(",", ":")) + "\n")
