"""Script generation helpers: deterministic data from (VERIF_SEED, case id).

The structure of what is exercised (which call, which object, which order / dimension / size class / overload) is
enumerated - by TLC for the lifecycle families, exhaustively by loops here for the numeric families; this module only
fills in the data.  Reals are written as C99 hex-float strings so that the exact bits reach the specification."""
import json, math, random

ORDERS = (3, 5, 7)
RMAX = {3: 1000.0, 5: 20.0, 7: 4.0}     # well-scaled domain W(order), DESIGN s4


def hx(x):
    x = float(x)
    if math.isnan(x):
        return "nan"
    if math.isinf(x):
        return "inf" if x > 0 else "-inf"
    h = x.hex()                      # '0x1.9800000000000p+2'  ->  glibc %a form '0x1.98p+2'
    m, e = h.split("p")
    if "." in m:
        m = m.rstrip("0")
        if m.endswith("."):
            m = m[:-1]
    return m + "p" + e


def hv(v):
    return [hx(x) for x in v]


def hm(m):
    return [hv(r) for r in m]


class Rng(random.Random):
    def dyadic(self, lo, hi, den=16):
        """uniform multiple of 1/den in [lo, hi]"""
        return self.randint(int(math.ceil(lo * den)), int(math.floor(hi * den))) / den

    def data_value(self, cls):
        if cls == "grid":
            return self.dyadic(-8, 8, 8)
        if cls == "real":
            return self.uniform(-100, 100)
        if cls == "big":
            return self.dyadic(-8, 8, 8) * 2.0 ** 40
        if cls == "zero":
            return 0.0
        raise ValueError(cls)

    def durations_W(self, order, n, dyadic):
        """duration vector in W(order): ratio <= RMAX, geometric mean in [0.1, 10]"""
        rmax = RMAX[order]
        for _ in range(1000):
            if dyadic:
                # multiples of 1/16 with bounded ratio
                base = self.choice([0.25, 0.5, 1.0, 2.0, 4.0])
                hi = base * min(rmax, self.choice([1.0, 2.0, 4.0, rmax]))
                t = [self.dyadic(base, max(base, hi), 16) for _ in range(n)]
            else:
                scale = math.exp(self.uniform(math.log(0.2), math.log(5.0)))
                r = math.exp(self.uniform(0, math.log(min(rmax, self.choice([2.0, 4.0, rmax])))))
                t = [scale * math.exp(self.uniform(0, math.log(r))) for _ in range(n)]
            if min(t) <= 0:
                continue
            if max(t) / min(t) > rmax * 0.999:
                continue
            gm = math.exp(sum(math.log(x) for x in t) / n)
            if 0.11 <= gm <= 9.0:
                return t
        return [1.0] * n

    def durations_any(self, n):
        """any positive durations, ratios up to 1e6"""
        scale = math.exp(self.uniform(math.log(1e-3), math.log(1e3)))
        return [scale * math.exp(self.uniform(0, math.log(self.choice([2.0, 100.0, 1e6])))) for _ in range(n)]

    def start_time(self):
        return self.choice([0.0, 0.0, 1.5, -2.25, 1e6, -1e6, 123456.789, 7.0 / 3.0])

    SPECIALS = ("zero", "const", "rest", "pair", "dwell_s", "dwell_e")

    def problem(self, order, dim, n, tdom="W", dcls=None, dyadic=None, t0=None, special=None):
        dcls = dcls or self.choice(["grid", "grid", "real", "real", "big"])
        dyadic = self.random() < 0.5 if dyadic is None else dyadic
        if tdom == "W":
            T = self.durations_W(order, n, dyadic)
        elif tdom == "any":
            T = self.durations_any(n)
        else:
            T = list(tdom)
        P = [[self.data_value(dcls) for _ in range(dim)] for _ in range(n + 1)]
        bc = {k: [self.data_value(dcls if dcls != "zero" else "grid") for _ in range(dim)] for k in ("sv", "sa", "sj", "ev", "ea", "ej")}
        # special coordinates (data-dependent shortcuts): one coordinate identically zero, or constant and at rest, or at rest only,
        # or two consecutive equal waypoints
        u = self.random()
        if u < 0.36 or special:
            c = self.randrange(dim)
            kind = special or self.SPECIALS[int(u / 0.06)]
            if kind in ("dwell_s", "dwell_e"):
                # the coordinate rests on its first (last) waypoint for one or two segments with zero boundary derivatives there, then moves:
                # leading (trailing) right-hand-side rows of the solvers are exactly zero
                m = min(n, 1 + (self.random() < 0.5))
                idx = range(1, m + 1) if kind == "dwell_s" else range(n - m, n)
                ref = P[0][c] if kind == "dwell_s" else P[n][c]
                for i in idx:
                    P[i][c] = ref
                for k in bc:
                    if k[0] == ("s" if kind == "dwell_s" else "e"):
                        bc[k][c] = 0.0
            if kind in ("zero", "const"):
                val = 0.0 if kind == "zero" else self.data_value(dcls)
                for row in P:
                    row[c] = val
            if kind in ("zero", "const", "rest"):
                for k in bc:
                    bc[k][c] = 0.0
            if kind == "pair":
                i = self.randrange(n)
                P[i + 1][c] = P[i][c]
        return {"order": order, "dim": dim, "T": T, "P": P, "bc": bc, "t0": self.start_time() if t0 is None else t0, "dcls": dcls}


def build_cmd(obj, pr, how="ctor_durs", bcar=6):
    c = {"op": "build", "obj": obj, "order": pr["order"], "dim": pr["dim"], "how": how, "bcar": bcar,
         "P": hm(pr["P"]), "bc": {k: hv(v) for k, v in pr["bc"].items()}}
    if how.endswith("durs"):
        c["T"] = hv(pr["T"])
        c["t0"] = hx(pr["t0"])
    else:
        tp = [pr["t0"]]
        for t in pr["T"]:
            tp.append(tp[-1] + t)
        c["tp"] = hv(tp)
    return c


def write_script(path, cmds):
    with open(path, "w") as f:
        for c in cmds:
            f.write(json.dumps(c, separators=(",", ":")) + "\n")


# ---------------------------------------------------------------------------------------------- optimizer scripts
def lift_dof(D, idx, pin=-1):
    return 1 if idx == pin else max(1, D - 1 - (idx % 2))


def lift_M(j, k):
    return (((j + 2 * k) % 3) - 1) * 0.5


def lift_physical(D, xi, idx, gain):
    dof = lift_dof(D, idx)
    p = []
    for j in range(D):
        if j < dof:
            p.append(xi[j])
        else:
            p.append(gain * (idx + 1) + sum(lift_M(j, k) * xi[k] for k in range(dof)))
    return p


def opt_layout(order, D, N, flags, sm, pin=-1):
    """(number of decision variables, list of (point index, dof), list of derivative block names)"""
    s = (order + 1) // 2
    pts = [i for i in range(N + 1) if (0 < i < N) or (i == 0 and flags[0]) or (i == N and flags[4])]
    dofs = [(i, D if sm == "id" else lift_dof(D, i, pin)) for i in pts]
    blocks = []
    for nm, on, d in (("sv", flags[1], 1), ("sa", flags[2], 2), ("sj", flags[3], 3), ("ev", flags[5], 1), ("ea", flags[6], 2), ("ej", flags[7], 3)):
        if on and d <= s - 1:
            blocks.append(nm)
    return N + sum(d for _, d in dofs) + len(blocks) * D, dofs, blocks


def quad_totime(tau):
    return (0.5 * tau + 1.0) * tau + 1.0 if tau > 0 else 1.0 / ((0.5 * tau - 1.0) * tau + 1.0)


class OptProblem:
    """a reference problem + configuration for one optimizer"""
    def __init__(self, r, order, D, N, tm, sm, flags=None, K=None, rho=None, scale=1.0, gain=0.25, t0=None):
        self.order, self.D, self.N, self.tm, self.sm = order, D, N, tm, sm
        self.flags = flags if flags is not None else [r.random() < 0.5 for _ in range(8)]
        self.K = K if K is not None else r.choice([1, 2, 3, 8])
        self.rho = rho if rho is not None else r.choice([0.0, 0.5, 2.0])
        self.scale, self.gain = scale, gain
        self.t0 = r.choice([0.0, 1.5, -2.25]) if t0 is None else t0
        self.taus_ref = [r.dyadic(-0.5, 0.5, 8) for _ in range(N)]
        self.T = [self.totime(t) for t in self.taus_ref]
        xi = [[r.dyadic(-4, 4, 4) for _ in range(D)] for _ in range(N + 1)]
        if sm == "id":
            self.P = xi
        else:
            self.P = [lift_physical(D, xi[i][:lift_dof(D, i)], i, gain) for i in range(N + 1)]
        self.bc = {k: [r.dyadic(-2, 2, 4) for _ in range(D)] for k in ("sv", "sa", "sj", "ev", "ea", "ej")}
        self.dim, self.dofs, self.blocks = opt_layout(order, D, N, self.flags, sm)

    def totime(self, tau):
        return quad_totime(tau) if self.tm == "quad" else self.scale * (tau * tau + 1.0)

    def relayout(self):
        self.dim, self.dofs, self.blocks = opt_layout(self.order, self.D, self.N, self.flags, self.sm)

    def x(self, r, kind="grid"):
        """a decision vector: dyadic time variables in [-1/2, 1/2] (durations stay well scaled), dyadic others"""
        n = self.dim
        xs = [r.dyadic(-0.5, 0.5, 8) for _ in range(self.N)]
        if kind == "marker":
            xs += [(17 + q) / 8.0 for q in range(n - self.N)]
        else:
            xs += [r.dyadic(-4, 4, 4) for _ in range(n - self.N)]
        return xs

    def cmds_setup(self, obj, user_tmap=None, user_smap=None, how="durs"):
        c = [{"op": "opt_new", "obj": obj, "order": self.order, "dim": self.D, "tm": self.tm, "sm": self.sm}]
        if user_tmap is not None:
            c.append({"op": "set_tmap", "obj": obj, "map": user_tmap})
        if user_smap is not None:
            c.append({"op": "set_smap", "obj": obj, "map": user_smap})
        c.append(self.cmd_init(obj, how))
        c.append({"op": "set_flags", "obj": obj, "flags": [bool(f) for f in self.flags]})
        c.append({"op": "set_energy", "obj": obj, "rho": hx(self.rho)})
        c.append({"op": "set_steps", "obj": obj, "K": self.K})
        return c

    def cmd_init(self, obj, how="durs"):
        c = {"op": "set_init", "obj": obj, "how": how, "P": hm(self.P), "bc": {k: hv(v) for k, v in self.bc.items()}}
        if how == "durs":
            c["T"], c["t0"] = hv(self.T), hx(self.t0)
        else:
            tp = [self.t0]
            for t in self.T:
                tp.append(tp[-1] + t)
            c["tp"] = hv(tp)
        return c


def cost_params(r, lie=None):
    c = {"ta": r.dyadic(-1, 1, 4), "tb": r.dyadic(0, 1, 4), "tc": r.dyadic(-0.5, 0.5, 8), "ww": r.dyadic(0.125, 1, 8), "wc0": r.dyadic(-1, 1, 2),
         "ap": r.dyadic(0, 0.5, 16), "av": r.dyadic(0.0625, 0.5, 16), "aa": r.dyadic(0, 0.25, 16), "aj": r.dyadic(0, 0.125, 32), "as": r.dyadic(0, 0.0625, 64),
         "beta": r.dyadic(-0.25, 0.25, 8), "gamma": r.dyadic(-0.25, 0.25, 8), "delta": r.dyadic(0, 0.25, 8), "eps": r.dyadic(0, 0.125, 16)}
    out = {k: hx(v) for k, v in c.items()}
    if lie:
        out.update({"lie_which": lie[0], "lie_i": lie[1], "lie_c": lie[2], "lie": hx(lie[3])})
    return out
