#!/usr/bin/env python3
"""Compares the [PASS]/PASS lines of a log of the repository's test programs with /root/.vp/BASELINE.json."""
import json, re, sys
log = re.sub(r"\x1b\[[0-9;]*m", "", open(sys.argv[1], errors="replace").read())
base = json.load(open("/root/.vp/BASELINE.json"))
passed, failed = set(), set()
for line in log.splitlines():
    m = re.match(r"\s*\[(PASS|FAIL)\]\s*([^:]*\S)\s*(:.*)?$", line)          # test_ppolyND style
    if m:
        (passed if m.group(1) == "PASS" else failed).add(m.group(2))
        continue
    m = re.match(r"\s*(.*?\S)\s*:\s*(PASS|FAIL)\b", line)                    # test_Grad style
    if m:
        (passed if m.group(2) == "PASS" else failed).add(m.group(1))
ok = {t for t in passed if t not in failed}
flaky = set(base.get("flaky", []))
missing = [t for t in base["stable_pass"] if t not in ok]
bad = sorted(t for t in failed if t not in flaky)
print("baseline stable tests: %d, passing now: %d, missing: %s, failing (non-flaky): %s"
      % (len(base["stable_pass"]), len(base["stable_pass"]) - len(missing), missing, bad))
sys.exit(1 if missing else 0)
