#!/usr/bin/env python3
"""Regenerates MANIFEST.json from the table below (single source; run after adding a check)."""
import json, os
V = os.path.dirname(os.path.dirname(os.path.abspath(__file__)))
ids = [json.loads(l)["id"] for l in open(os.path.join(V, "properties.jsonl"))]
TECH = "TLA+ spec + TLC model checking; TLC trace validation of recorded implementation runs (exact rational oracle)"
NOTE = ("Trusted: TLC, the Rat BigInteger override (self-tested), the replayer's recording code, g++ -O2 -ffp-contract=off. "
        "Design theorems hold on the finite grid/constants of the cfg; the code is judged on the executions replayed "
        "(structure enumerated exhaustively, data seeded).")
CLAIMED = {
 "C01": ("model_checking", "s6 C01", "TLC checks on a grid that the defining equations have a unique solution and the knot bookkeeping laws; every order x dim 1..10 x N 1..10 x overload is executed on the real classes and each recording is validated by TLC against the exact interpolation/boundary equations and bookkeeping (scaled residual <= 1e-6 in the well-scaled domain)."),
 "C02": ("model_checking", "s6 C02", "TLC proves first-order optimality of the defining-equation solution on a grid (so residuals = minimiser); recordings of the real classes are validated for continuity of derivatives 1..2s-2 and coefficient-wise against an exact dense solve."),
 "C04": ("model_checking", "s6 C04", "Energy laws model-checked on the grid; recorded getEnergy() validated against the exact integral of the squared s-th derivative of the published coefficients for arbitrary positive durations."),
 "C05": ("model_checking", "s6 C05", "TLC checks on the grid that the adjoint (implicit differentiation of the defining equations) equals exact central differences of <gC,C>+<gT,T> in every input; recorded propagateGrad results for unit, dense, sparse and zero upstream gradients are validated entry-wise against the exact transpose-Jacobian product, and repeated calls must return identical bits."),
 "C06": ("model_checking", "s6 C06", "TLC checks on the grid that the exact energy gradient equals exact differences of the energy; recorded partial gradients are validated against exact partials of the energy integral of the published coefficients, recorded total gradients (three access routes) and propagated partials against the exact total derivative."),
 "C10": ("model_checking", "s6 C10", "TLC explores the object life cycle with the factor caches modelled entry by entry (no stale read reachable; three broken twins rejected) and generates one script per abstract transition; the scripts are replayed on all three orders and every observation must carry the same bits as any other observation with the same inputs."),
 "C13": ("model_checking", "s6 C13", "Coordinate-wise independence is a TLC theorem on the grid; for every order and dimension 1..10 the D-dimensional recording is validated against the per-coordinate exact oracle and compared coordinate-wise with D one-dimensional recordings and a permuted one."),
 "C14": ("model_checking", "s6 C14", "The five transformation laws (coefficients, energy, energy gradients) are TLC theorems on the grid; recordings of a problem and its five transforms are compared with each other (bit-identical for shifts) and each with its own exact minimiser/energy/gradient."),
 "C18": ("exploration", "s6 C18", "Rounding cannot be modelled in TLA+; it is judged exactly: every defining-equation residual of a canonical corpus and of seeded random duration vectors with ratio <= 100 is evaluated in exact arithmetic by TLC on the recorded coefficient bits (tolerance 1e-3). Known finding F1 (septic, ratio >= ~70) is listed in known_findings.json."),
 "C03": ("model_checking", "s6 C03", "The lookup algorithm is transcribed into TLA+ and checked by TLC against the half-open-interval definition for all breakpoint vectors, times, hints and hint histories on a lattice (3 broken twins rejected); the real class is driven through every route for thousands of (object, t, k, hint) cases and TLC validates identical bits, the exact value of the defined piece and the hint post-state."),
 "C11": ("model_checking", "s6 C11", "TLC explores the PPolyND life cycle with both lazy caches modelled (caches tagged by the data they were built from; no stale read and no shared cache reachable, 4 broken twins rejected) and generates one script per abstract transition; replayed on the real class, every evaluation must equal the exact value of the latest data of that object; spline objects are rebuilt after evaluation and evaluated again."),
 "C20": ("model_checking", "s6 C20", "The sequence contract is model-checked over an integer lattice (broken twin rejected); recorded time sequences (incl. steps that nearly divide the interval), trajectory lengths, batch evaluations and factory objects are validated exactly on the logged bits."),
 "C17": ("model_checking", "s6 C17", "Positivity, strict monotonicity, C^2 smoothness at the switch point, the backward rule and the inverse law are TLC theorems on a rational lattice (broken twin rejected); recorded toTime/toTau/backward values on lattices that include adjacent doubles and subnormals are judged against the exact rational map."),
 "C07": ("model_checking", "s6 C07", "OptMath!Grad (chain rule through time map, spatial map, spline adjoint and the K-step quadrature, written from the definitions) is checked by TLC against exact central differences of OptMath!Cost on a grid; on the real class all 256 flag settings x 3 orders with cycled N, dimension, map families, energy weight, steps and overloads are evaluated and every gradient component is validated against the exact gradient."),
 "C08": ("model_checking", "s6 C08", "Recorded costs are validated against the exact time + waypoint + trapezoid + weighted-energy decomposition, and every sample handed to a recording running-cost functor (segment index, local/global time, p v a j s) against the exact minimiser; count and uniqueness of samples; the two-cost overload law is a TLC theorem."),
 "C09": ("model_checking", "s6 C09", "Layout, round-trip and pinning laws are TLC theorems on a grid; the lazy layout cache is explored exhaustively against every setter/reader/copy history (4 broken twins rejected); all flag settings x orders x N 1..6 x dimensions x spatial maps are replayed (dimension, initial guess, decode of a marker vector, pinned bits, exposed spline) plus one script per transition of the reconfiguration model."),
 "C15": ("model_checking", "s6 C15", "Ownership model (own/user map pointers, built-in workspace) explored exhaustively by TLC (NoDangling, NoSharedWorkspace; broken twins rejected); one script per transition replayed with stateful maps on optimizers in a poisoned arena; every evaluation of every live object is validated against the exact result for its own configuration; spline-object copies by bit identity."),
 "C16": ("model_checking", "s6 C16", "Verdict coherence and rejection paths are model-checked (OptObj, PPolyObj); every single placement of a non-finite value, durations around the 1 ms threshold, size mismatches and valid/invalid sequences are replayed through both overloads and judged against Valid(inputs, order) evaluated exactly on the logged bits, verdicts of copies included (defect F3 found and repaired by a fix: commit); PPolyND rejection kinds (also directly after a valid state) and at() bounds likewise."),
 "C19": ("model_checking", "s6 C19", "The self-check procedure is a TLA+ state machine checked by TLC (restore after every component, final evaluation at x; broken twin rejected); recorded checkGradients results for correct and lying functors are validated: analytical vs the exact pipeline result for the claimed partials, numerical vs the exact true gradient, norms, verdict and workspace state."),
 "C12": ("model_checking", "s6 C12", "TLC explores every interleaving of concurrent evaluators (lazy layout fill split into steps) and of executor tasks under a happens-before race definition (2 broken twins rejected); on the real class every segment-order permutation, thread partitions and 2..4 concurrently evaluating threads on a freshly configured optimizer must return the bits of the serial calls, and the same scripts run race-free under ThreadSanitizer. Defect F2 (unsynchronised lazy layout fill) was found this way and repaired by a fix: commit."),
}
TECHS = {
 "C01": "TLC model checking of spec/MCSplineMath (existence/uniqueness, bookkeeping laws on a rational grid) + TLC trace validation (spec/TraceSpline) of executions replayed on the real classes, judged by exact rational residuals",
 "C02": "TLC model checking of spec/MCSplineMath (optimality, variational laws, the library's own block equations in spec/SplineAlgo) + TLC trace validation (TraceSpline) against the exact dense minimiser; traces of the repository's own tests recorded through the guarded hook",
 "C03": "TLC model checking of spec/PPolyLookup (transcribed lookup algorithm, broken twins) + TLC trace validation (spec/TracePPoly) of every evaluation route on the real class",
 "C04": "TLC model checking of spec/MCSplineMath (energy laws) + TLC trace validation (TraceSpline): exact integral of the published coefficients",
 "C05": "TLC model checking of spec/MCSplineMath (adjoint = exact differences) + TLC trace validation (TraceSpline): exact transpose-Jacobian product",
 "C06": "TLC model checking of spec/MCSplineMath (energy gradient laws, variational closed forms) + TLC trace validation (TraceSpline): exact partial and total energy gradients",
 "C07": "TLC model checking of spec/MCOptMath (Grad = exact differences of Cost on a grid) + TLC trace validation (spec/TraceOpt) of optimizer evaluations against the exact gradient",
 "C08": "TLC model checking of spec/MCOptMath (cost decomposition, two-cost law) + TLC trace validation (TraceOpt) of costs and of every sample handed to the running cost",
 "C09": "TLC model checking of spec/MCOptMath (layout laws) and exhaustive exploration of spec/MCOptObj (lazy layout cache, broken twins) generating scripts; replay on the real class; TLC trace validation (TraceOpt)",
 "C10": "TLC exhaustive exploration of spec/MCSplineObj (cache discipline, broken twins) generating one script per abstract transition; replay; TLC trace validation (TraceSpline, TraceOpt) with a bit-identity memo and fresh twin objects",
 "C11": "TLC exhaustive exploration of spec/MCPPolyObj (lazy caches tagged by data, NoSharedCache, 4 broken twins) and spec/MCSplineObj generating scripts; replay; TLC trace validation (TracePPoly, TraceSpline)",
 "C12": "TLC exhaustive exploration of spec/OptConcurrent (interleavings of evaluators and executor tasks, happens-before data-race definition, broken twins) + replay of schedules on the real class validated by TLC (TraceOpt, bit identity with serial calls) + the same replays under ThreadSanitizer",
 "C13": "TLC model checking of spec/MCSplineMath (coordinate-wise independence) + TLC trace validation (TraceSpline) of D-dimensional against one-dimensional recordings",
 "C14": "TLC model checking of spec/MCSplineMath (transformation laws) + TLC trace validation (TraceSpline) of a problem against its transforms",
 "C15": "TLC exhaustive exploration of spec/MCOptObj (ownership: NoDangling, NoSharedWorkspace, broken twins) generating scripts + a deterministic ownership family; replay in a poisoned arena (thorough: AddressSanitizer); TLC trace validation (TraceOpt)",
 "C16": "TLC model checking of spec/MCOptObj and spec/MCPPolyObj (verdict coherence, rejection paths) + TLC trace validation (TraceOpt, TracePPoly) of every fault placement",
 "C17": "TLC model checking of spec/MCTimeMap (positivity, monotonicity, inverse, backward rule on a rational lattice) + TLC trace validation (spec/TraceTimeMap) of recorded map values",
 "C18": "no design model applies to rounding (DESIGN s10): TLC trace validation (TraceSpline) only - exact residuals of the defining equations on the recorded coefficient bits",
 "C19": "TLC model checking of spec/SelfCheck (self-check state machine, broken twin) + TLC trace validation (TraceOpt) of checkGradients results for correct and lying functors",
 "C20": "TLC model checking of spec/TimeSeq (sequence contract on an integer lattice, broken twin) + TLC trace validation (TracePPoly) of sequences, lengths, batch evaluation, factories",
}
PENDING = {}
checks = []
for i in ids:
    if i in CLAIMED:
        cat, ref, text = CLAIMED[i]
        checks.append({"property_id": i, "quick_cmd": "bin/check %s --tier quick" % i, "thorough_cmd": "bin/check %s --tier thorough" % i,
                       "evidence_file": "evidence/%s.json" % i, "replay_cmd_template": "bin/check %s --replay {path}" % i,
                       "engine": "tlc-conformance", "level_claimed": {"category": cat, "text": text, "design_ref": "DESIGN.md " + ref},
                       "level_note": NOTE, "technique": TECHS.get(i, TECH)})
na = [{"property_id": i, "reason": PENDING.get(i, "check not built yet (work in progress; DESIGN.md s11 order of work)")} for i in ids if i not in CLAIMED]
m = {"version": 1, "setup_cmd": "bin/setup",
     "hooks": {"guard": "SPLINETRAJECTORY_VERIF", "enable": "-DSPLINETRAJECTORY_VERIF plus -include harness/trace_sink.hpp when building the repository's own test programs (lib/vbuild.py: repo_test_with_hooks); the replayers use the public API only",
               "baseline_off_cmd": "bin/baseline_off", "source_commits": ["98a3c22"], "add_only": True},
     "engines": [{"name": "tlc-conformance", "path": "bin/check", "serves_properties": sorted(CLAIMED),
                  "kind_free_text": "TLA+ design modules model-checked by TLC; behaviours replayed on the real classes (harness/), recordings validated by TLC trace specifications with an exact rational oracle"}],
     "checks": checks,
     "notes": "Model-based verification with explicit TLA+ specifications (spec/), TLC, and two-way conformance (harness/, lib/). See DESIGN.md.",
     "not_applicable": na}
json.dump(m, open(os.path.join(V, "MANIFEST.json"), "w"), indent=1)
print("claimed:", sorted(CLAIMED), "pending:", len(na))
