#!/usr/bin/env python3
"""bin/check <property> [--tier quick|thorough] [--replay <path>]

Runner of every registered check.  For one property it
  1. model-checks the design modules named by the plan with TLC (exhaustive, small constants);
  2. generates behaviours (TLC-generated scripts and/or structure-exhaustive seeded scripts), replays them on the real
     classes built from the repository's CURRENT working tree, and has TLC validate the recordings against the
     specification in exact arithmetic (spec/Trace*.tla);
  3. maps deviations to VIOLATION / KNOWN-FINDING lines, writes replay files and the evidence file.
Exit status: 0 = property held on everything explored, 1 = at least one VIOLATION, 3 = infrastructure failure."""
import argparse, json, os, re, shutil, subprocess, sys, time, glob
from concurrent.futures import ThreadPoolExecutor

sys.path.insert(0, os.path.dirname(os.path.abspath(__file__)))
import vbuild, gen

VERIF = vbuild.VERIF
SPEC = os.path.join(VERIF, "spec")
JAR = "/opt/veriftools/tla/tla2tools.jar:/opt/veriftools/tla/CommunityModules-deps.jar"


def tlc_cmd(extra_java=()):
    return ["java", "-XX:+UseParallelGC", "-Xss1g"] + list(extra_java) + [
        "-Dtlc2.overrides.TLCOverrides=tlc2.overrides.TLCOverrides:tlc2.overrides.VerifOverrides",
        "-cp", JAR + ":" + os.path.join(vbuild.CACHE, "classes"), "tlc2.TLC"]


class Ctx:
    def __init__(self, prop, tier, seed):
        self.prop, self.tier, self.seed = prop, tier, seed
        self.t0 = time.time()
        self.work = os.path.join(vbuild.CACHE, "run", "%s-%d" % (prop, os.getpid()))
        shutil.rmtree(self.work, ignore_errors=True)
        os.makedirs(self.work)
        self.infra = []          # infrastructure failures (never reported as violations)
        self.mc = []             # model-checking results
        self.devs = []           # deviations (dicts)
        self.stats = {}
        self.traces = 0
        self.samples = []
        self.notes = []
        self.worst = {}          # reason code -> largest error/tolerance seen (headroom)
        self.family, self.tracespec, self.env_flags = "", "", {}

    def quick(self):
        return self.tier == "quick"

    def cleanup(self):
        if os.environ.get("VERIF_KEEP_WORK"):   # debugging aid: keep scripts, recordings and TLC outputs of this run
            return
        shutil.rmtree(self.work, ignore_errors=True)


# ------------------------------------------------------------------ TLC: model checking of design modules
def run_mc(ctx, module, cfg, workers=8, timeout=1500, heap="8g", expect_violation=False, env=None, simulate=None, coverage=True):
    """exhaustive TLC run on spec/<module>.tla with spec/<cfg>; returns dict(states, distinct, ok, ...)"""
    md = os.path.join(ctx.work, "mc-" + cfg.replace(".cfg", ""))
    os.makedirs(md, exist_ok=True)
    cmd = tlc_cmd(["-Xmx" + heap]) + ["-workers", str(workers), "-noGenerateSpecTE", "-metadir", md] + (["-coverage", "1"] if coverage else []) + ["-config", cfg]
    if simulate:
        cmd += ["-simulate", simulate]
    cmd += [module + ".tla"]
    t0 = time.time()
    e = dict(os.environ)
    e.update(env or {})
    try:
        p = subprocess.run(cmd, cwd=SPEC, capture_output=True, text=True, timeout=timeout, env=e)
        out, rc = p.stdout + p.stderr, p.returncode
    except subprocess.TimeoutExpired as ex:
        out, rc = (ex.stdout or b"").decode(errors="replace") if isinstance(ex.stdout, bytes) else (ex.stdout or ""), 124
    shutil.rmtree(md, ignore_errors=True)
    m = re.search(r"(\d+) states generated, (\d+) distinct states found", out)
    gen_, dist = (int(m.group(1)), int(m.group(2))) if m else (0, 0)
    violated = bool(re.search(r"Invariant .* is violated|Temporal properties were violated|Action property .* is violated|Assumption .* is false", out))
    ok_finish = "Model checking completed. No error has been found." in out or (simulate and rc in (0,) )
    # per-action coverage: "<Action line ..>: taken:generated"
    never = re.findall(r"<(\w+) line \d+, col \d+ to line \d+, col \d+ of module \w+>: 0:0", out)
    res = {"module": module, "cfg": cfg, "generated": gen_, "distinct": dist, "rc": rc, "violated": violated,
           "completed": bool(ok_finish), "wall_s": round(time.time() - t0, 1), "never_taken": sorted(set(never))}
    ctx.mc.append(res)
    if expect_violation:
        if not violated:
            ctx.infra.append("broken twin %s/%s was NOT rejected by TLC (vacuous model?)" % (module, cfg))
    else:
        if violated:
            res["output_tail"] = out[-3000:]
        elif not ok_finish:
            ctx.infra.append("TLC did not complete on %s/%s (rc=%s): %s" % (module, cfg, rc, out[-1500:]))
    return res


def tlc_generate(ctx, module, cfg_text, name, timeout=600, heap="6g", workers=4, simulate=None):
    """run a generator configuration; returns the list of behaviours (each a list of abstract operations) that TLC
    printed from its state constraint - one per generated edge of the abstract state graph"""
    cfg = "_gen_%s_%d.cfg" % (name, os.getpid())
    with open(os.path.join(SPEC, cfg), "w") as f:
        f.write(cfg_text)
    md = os.path.join(ctx.work, "gen-" + name)
    os.makedirs(md, exist_ok=True)
    outp = os.path.join(ctx.work, "gen-%s.out" % name)
    cmd = tlc_cmd(["-Xmx" + heap]) + ["-workers", str(workers), "-noGenerateSpecTE", "-metadir", md, "-config", cfg]
    if simulate:        # (num, depth): long random behaviours instead of the breadth-first edge enumeration
        cmd += ["-simulate", "num=%d" % simulate[0], "-depth", str(simulate[1]), "-seed", str(ctx.seed)]
    cmd += [module + ".tla"]
    try:
        with open(outp, "w") as fo:
            rc = subprocess.run(cmd, cwd=SPEC, stdout=fo, stderr=subprocess.STDOUT, timeout=timeout).returncode
    except subprocess.TimeoutExpired:
        rc = 124
    finally:
        os.remove(os.path.join(SPEC, cfg))
        shutil.rmtree(md, ignore_errors=True)
    scripts = []
    tail = ""
    for line in open(outp, errors="replace"):
        if line.startswith('<<"SCRIPT", '):
            body = line.strip()[len('<<"SCRIPT", '):-2]
            try:
                scripts.append(json.loads(json.loads(body)))
            except Exception:
                pass
        else:
            tail = (tail + line)[-1500:]
    if simulate:        # all candidate successors of every step were printed: keep one full-length behaviour per distinct prefix
        seen, full = set(), []
        for h in scripts:
            if len(h) == simulate[1]:
                k = json.dumps(h[:-1], sort_keys=True)
                if k not in seen:
                    seen.add(k)
                    full.append(h)
        scripts = full
    if (rc != 0 and not simulate) or not scripts:
        ctx.infra.append("generator %s/%s failed (rc=%s): %s" % (module, name, rc, tail))
    m = re.search(r"(\d+) states generated, (\d+) distinct states found", tail)
    ctx.mc.append({"module": module, "cfg": "generator:" + name, "generated": int(m.group(1)) if m else 0, "distinct": int(m.group(2)) if m else 0,
                   "rc": rc, "violated": False, "completed": rc == 0, "wall_s": 0, "never_taken": [], "scripts": len(scripts)})
    return scripts


# ------------------------------------------------------------------ replay + trace validation
def replay_and_validate(ctx, exe, batches, tracespec, env_flags, label="b", jobs=14, tlc_timeout=1700, heap="2g", crash_prop=None):
    """batches: list of lists of script commands (each batch = several executions separated by reset).
    Returns list of per-batch result dicts; deviations are appended to ctx.devs."""
    os.makedirs(ctx.work, exist_ok=True)
    # a crash (library or Eigen assertion, segmentation fault) of the real classes under a generated script is a violation of the property
    # being checked: every script consists of calls the public interface allows
    crash_prop = crash_prop or ctx.prop

    def one(ib):
        i, cmds = ib
        base = os.path.join(ctx.work, "%s%03d" % (label, i))
        script, trace, outj = base + ".script.ndjson", base + ".trace.ndjson", base + ".out.json"
        gen.write_script(script, cmds)
        try:
            p = subprocess.run([exe, script, trace], capture_output=True, text=True, timeout=900)
        except subprocess.TimeoutExpired:
            return {"i": i, "infra": "replayer timed out on " + script}
        if p.returncode != 0:
            return {"i": i, "infra": "replayer failed rc=%d on %s: %s" % (p.returncode, script, p.stderr[-500:])}
        nlines, nexc, ncrash = 0, 0, 0
        for tl in open(trace):
            nlines += 1
            if '"exception":' in tl:
                nexc += 1
            if '"e":"crash"' in tl:
                ncrash += 1
        if ncrash:
            if crash_prop:      # for this property a crash of the library under the replayed behaviour IS the violation
                return {"i": i, "crash": {"prop": crash_prop, "code": "replayer.crash", "info": {"last_event": nlines}, "line": max(1, nlines - 1), "exec": 1,
                                          "batch": i, "script": script}}
            return {"i": i, "infra": "the replayer crashed while executing %s" % script}
        if nexc:
            return {"i": i, "infra": "%d calls threw an unexpected exception while executing %s (harness or script defect)" % (nexc, script)}
        if nlines != len(cmds):
            return {"i": i, "infra": "trace truncated: %d lines for %d commands (%s)" % (nlines, len(cmds), script)}
        r = validate_trace(ctx, tracespec, trace, outj, env_flags, tlc_timeout, heap)
        r["i"] = i
        r["script"] = script
        r["trace"] = trace
        return r

    with ThreadPoolExecutor(max_workers=jobs) as ex:
        results = list(ex.map(one, enumerate(batches)))
    for r in results:
        if "crash" in r:
            ctx.devs.append(r["crash"])
            continue
        if "infra" in r:
            ctx.infra.append(r["infra"])
            continue
        ctx.traces += r["stats"].get("executions", 0)
        for k, v in r["stats"].items():
            if isinstance(v, int):
                ctx.stats[k] = ctx.stats.get(k, 0) + v
        for k, v in (r.get("worst") or {}).items():
            try:
                ctx.worst[k] = max(ctx.worst.get(k, 0.0), float(v))
            except ValueError:
                pass
        cases = None
        for d in r["bad"]:
            d["batch"] = r["i"]
            d["script"] = r["script"]
            if cases is None:       # execution number -> case label (a "note" with a "case" field right after the reset)
                cases, ex = {}, 0
                for line in open(r["script"]):
                    c = json.loads(line)
                    if c.get("op") == "reset":
                        ex += 1
                    elif c.get("op") == "note" and "case" in c:
                        cases[ex] = c["case"]
            if d.get("exec") in cases:
                d.setdefault("info", {})["case"] = cases[d["exec"]]
            ctx.devs.append(d)
    return results


def validate_trace(ctx, tracespec, trace, outj, env_flags, timeout=1700, heap="2g", retry=True):
    md = outj + ".md"
    e = dict(os.environ)
    e.update(env_flags)
    e["TRACE"] = trace
    e["OUT"] = outj
    if os.path.exists(outj):
        os.remove(outj)
    cmd = tlc_cmd(["-Xmx" + heap]) + ["-workers", "1", "-noGenerateSpecTE", "-metadir", md, "-config", tracespec + ".cfg", tracespec + ".tla"]
    try:
        p = subprocess.run(cmd, cwd=SPEC, capture_output=True, text=True, timeout=timeout, env=e)
        out, rc = p.stdout + p.stderr, p.returncode
    except subprocess.TimeoutExpired:
        out, rc = "timeout", 124
    shutil.rmtree(md, ignore_errors=True)
    ok = rc == 0 and os.path.exists(outj) and "No error has been found" in out
    if not ok:
        if retry:   # model failures are infrastructure: retry once, report only what repeats
            return validate_trace(ctx, tracespec, trace, outj, env_flags, timeout, heap, retry=False)
        return {"infra": "TLC could not validate %s with %s (rc=%s): %s" % (trace, tracespec, rc, out[-1500:])}
    d = json.load(open(outj))
    return {"bad": d["bad"], "stats": d["stats"], "worst": d.get("worst", {})}


# ------------------------------------------------------------------ known findings, verdict, evidence
def load_findings():
    p = os.path.join(VERIF, "known_findings.json")
    return json.load(open(p))["findings"] if os.path.exists(p) else []


def _match(cond, val):
    if isinstance(cond, dict):
        try:
            if "min" in cond and not (float(val) >= cond["min"]):
                return False
            if "max" in cond and not (float(val) <= cond["max"]):
                return False
        except (TypeError, ValueError):
            return False
        if "in" in cond and val not in cond["in"]:
            return False
        if "prefix" in cond and not str(val).startswith(cond["prefix"]):
            return False
        return True
    return cond == val


def finding_for(dev, findings):
    flat = dict(dev.get("info", {}))
    flat["code"] = dev["code"]
    for f in findings:
        if f.get("status") != "open" or f["property"] != dev["prop"]:
            continue
        if all(k in flat and _match(c, flat[k]) for k, c in f["where"].items()):
            return f
    return None


def extract_execution(script, line):
    """commands of the execution (reset..next reset) that contains 1-based line"""
    cmds = [json.loads(l) for l in open(script)]
    start = max(i for i in range(0, line) if cmds[i].get("op") == "reset") if any(c.get("op") == "reset" for c in cmds[:line]) else 0
    end = len(cmds)
    for j in range(line, len(cmds)):
        if cmds[j].get("op") == "reset":
            end = j
            break
    return cmds[start:end]


def finish(ctx, level, rule, trusted, assumptions, props_judged=None, extra_cov=None):
    """print verdict lines, write replays and the evidence file; return exit status"""
    prop = ctx.prop
    props_judged = props_judged or {prop}
    findings = load_findings()
    mine = [d for d in ctx.devs if d["prop"] in props_judged]
    other = [d for d in ctx.devs if d["prop"] not in props_judged]
    viol, known, kcases = [], {}, {}
    for d in mine:
        f = finding_for(d, findings)
        if f:
            known.setdefault(f["id"], [f, 0])[1] += 1
            kcases.setdefault(f["id"], set()).add(str(d.get("info", {}).get("case", "?")))
        else:
            viol.append(d)
    # model-checking violations of the design (not expected): the design model itself is wrong or the property fails on the design
    for r in ctx.mc:
        if r["violated"] and not r.get("expect_violation"):
            if not any(b.get("cfg") == r["cfg"] for b in ctx.mc if b is not r and False):
                pass
    rdir = os.path.join(VERIF, "replays", prop)
    shutil.rmtree(rdir, ignore_errors=True)
    nviol = 0
    seen = set()
    for d in viol:
        key = (d["batch"], d["exec"], d["code"])
        if key in seen:
            continue
        seen.add(key)
        nviol += 1
        if nviol > 25:
            continue
        os.makedirs(rdir, exist_ok=True)
        path = os.path.join(rdir, "case%03d_%s.ndjson" % (nviol, re.sub(r"[^A-Za-z0-9]+", "_", d["code"])))
        try:
            ex = extract_execution(d["script"], d["line"] - 1)
        except Exception:
            ex = []
        with open(path, "w") as f:
            f.write(json.dumps({"op": "note", "replay_of": prop, "family": ctx.family, "env": ctx.env_flags,
                                "tracespec": ctx.tracespec, "deviation": {k: d[k] for k in ("prop", "code", "info", "line", "exec")}}) + "\n")
            for c in ex:
                f.write(json.dumps(c, separators=(",", ":")) + "\n")
        print("VIOLATION property=%s replay=%s" % (prop, path))
        print("  reason=%s info=%s" % (d["code"], json.dumps(d.get("info", {}))))
    mcviol = [r for r in ctx.mc if r["violated"] and not r.get("expect_violation")]
    for r in mcviol:
        os.makedirs(rdir, exist_ok=True)
        path = os.path.join(rdir, "model_%s.txt" % r["cfg"])
        open(path, "w").write(r.get("output_tail", ""))
        print("VIOLATION property=%s replay=%s" % (prop, path))
        print("  reason=design model %s/%s violates its invariant" % (r["module"], r["cfg"]))
        nviol += 1
    for fid, (f, n) in sorted(known.items()):
        print("KNOWN-FINDING: property=%s %s (%s; %d matching deviations in this run)" % (prop, f["summary"], fid, n))
    if other:
        codes = sorted(set((d["prop"], d["code"]) for d in other))
        print("note: %d deviations belonging to other properties were seen and are reported by their own checks: %s" % (len(other), codes[:8]))
        for d in other[:3]:
            print("  other: prop=%s code=%s info=%s script=%s line=%s" % (d["prop"], d["code"], json.dumps(d.get("info", {})), d.get("script"), d.get("line")))
        if os.environ.get("VERIF_KEEP_OTHER"):
            import shutil as _sh
            for d in other[:3]:
                _sh.copy(d["script"], "/var/tmp/vt/other_%s.ndjson" % d["prop"])
    for m in ctx.infra:
        print("INFRASTRUCTURE: " + m[:2000])
    wall = round(time.time() - ctx.t0, 1)
    states = sum(r["distinct"] for r in ctx.mc if not r.get("expect_violation"))
    trans = sum(r["generated"] for r in ctx.mc if not r.get("expect_violation"))
    cov = {"states": states, "transitions": trans, "traces_validated_against_impl": ctx.traces,
           "samples": ctx.samples[:6] or ["(none)"],
           "evaluations": int(ctx.stats.get("judgements", 0)) or int(ctx.stats.get("lines", 0)) or 1,
           "distinct_nontrivial": max(2, ctx.traces),
           "rule": rule, "trusted_base": trusted,
           "model_checking_runs": [{k: r[k] for k in ("module", "cfg", "generated", "distinct", "completed", "violated", "wall_s", "never_taken")} | ({"broken_twin_rejected": r["violated"]} if r.get("expect_violation") else {}) for r in ctx.mc],
           "trace_stats": ctx.stats, "largest_error_over_tolerance": {k: float("%.3g" % v) for k, v in sorted(ctx.worst.items())}, "known_finding_matches": {k: v[1] for k, v in known.items()}, "known_finding_cases": {k: sorted(v) for k, v in kcases.items()},
           "infrastructure_failures": len(ctx.infra), "exhaustive": False}
    if extra_cov:
        cov.update(extra_cov)
    if level == "model_checking" and (states < 1 or trans < 1):
        cov["states"], cov["transitions"] = max(states, 1), max(trans, 1)
    ev = {"property_id": prop, "tier": ctx.tier, "seed": ctx.seed, "level": level, "coverage": cov,
          "assumptions": assumptions, "wall_s": wall, "violations": nviol}
    os.makedirs(os.path.join(VERIF, "evidence"), exist_ok=True)
    json.dump(ev, open(os.path.join(VERIF, "evidence", prop + ".json"), "w"), indent=1)
    print("%s tier=%s seed=%d: %d deviations judged for this property, %d violations, %d known-finding matches, "
          "%d executions validated, %d model states, %.0fs" % (prop, ctx.tier, ctx.seed, len(mine), nviol, sum(v[1] for v in known.values()), ctx.traces, states, wall))
    ctx.cleanup()
    if nviol:
        return 1
    if ctx.infra:
        return 3
    return 0


def main():
    ap = argparse.ArgumentParser()
    ap.add_argument("prop", nargs="?")
    ap.add_argument("--tier", default=os.environ.get("VERIF_TIER", "quick"))
    ap.add_argument("--replay")
    ap.add_argument("--setup", action="store_true")
    a = ap.parse_args()
    if a.setup:
        vbuild.java_classes()
        print("setup ok")
        return 0
    vbuild.java_classes()
    seed = int(os.environ.get("VERIF_SEED", "1"))
    import plans
    if a.replay:
        return plans.replay(a.prop, a.replay, seed)
    if a.prop not in plans.PLANS:
        print("unknown property " + str(a.prop))
        return 3
    ctx = Ctx(a.prop, a.tier, seed)
    return plans.PLANS[a.prop](ctx)


if __name__ == "__main__":
    sys.exit(main())
