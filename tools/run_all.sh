#!/bin/sh
# tools/run_all.sh [quick|thorough]  - runs every registered check on the current tree and prints one summary line each
TIER=${1:-quick}
cd "$(dirname "$0")/.."
for c in $(python3 -c "import json; print(' '.join(x['property_id'] for x in json.load(open('MANIFEST.json'))['checks']))"); do
  out=$(bin/check $c --tier $TIER 2>&1); rc=$?
  echo "$c rc=$rc $(echo "$out" | grep -E "tier=" | tail -1 | sed 's/^.*seed=[0-9]*: //')"
  echo "$out" | grep -E "^VIOLATION|^INFRASTRUCTURE|^KNOWN-FINDING|^note:|^  other:" | cut -c1-200 | head -5
done
