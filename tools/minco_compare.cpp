// Reproduces the comparison quoted in DESIGN.md s8 (F1): the bundled MINCO (gcopter/minco.hpp, MINCO_S4NU) and SepticSplineND<3> on the
// same 24 problems with duration ratio 100 (one short segment among long ones), written as "build" events of the TraceSpline format so
// that TLC judges both with the C18 measure.  Build: g++ -std=c++17 -O2 -ffp-contract=off -I/repo/include -I/usr/include/eigen3
// -I/verif/harness tools/minco_compare.cpp ; run; then TRACE=<file> OUT=<json> bin/tlcv -workers 1 -config TraceSpline.cfg TraceSpline.tla (in spec/).
#include "SplineTrajectory.hpp"
#include "gcopter/minco.hpp"
#include "hx.hpp"
#include <random>
using namespace SplineTrajectory;
int main(){
  std::mt19937 g(7); std::uniform_int_distribution<int> di(-64,64);
  FILE* f=fopen("minco_compare.trace.ndjson","w");
  for (int N : {3,4,7,8}) for (int rep=0; rep<6; ++rep) for (int which=0; which<2; ++which) {
    std::mt19937 gg(N*100+rep); 
    std::vector<double> T(N, 6.25); T[gg()%N]=0.0625;
    Eigen::Matrix<double,-1,3,Eigen::RowMajor> P(N+1,3);
    for(int i=0;i<=N;++i) for(int c=0;c<3;++c) P(i,c)=di(gg)/8.0;
    BoundaryConditions<3> bc; 
    for(int c=0;c<3;++c){ bc.start_velocity(c)=di(gg)/8.0; bc.start_acceleration(c)=di(gg)/8.0; bc.start_jerk(c)=di(gg)/8.0; bc.end_velocity(c)=di(gg)/8.0; bc.end_acceleration(c)=di(gg)/8.0; bc.end_jerk(c)=di(gg)/8.0; }
    Eigen::MatrixXd coef(8*N,3);
    if (which==0) { SepticSplineND<3> s(T,P,0.0,bc); coef=s.getTrajectory().getCoefficients(); }
    else {
      minco::MINCO_S4NU m; Eigen::Matrix<double,3,4> head, tail;
      head.col(0)=P.row(0).transpose(); head.col(1)=bc.start_velocity; head.col(2)=bc.start_acceleration; head.col(3)=bc.start_jerk;
      tail.col(0)=P.row(N).transpose(); tail.col(1)=bc.end_velocity; tail.col(2)=bc.end_acceleration; tail.col(3)=bc.end_jerk;
      m.setConditions(head,tail,N);
      Eigen::MatrixXd inPs(3,N-1); for(int i=1;i<N;++i) inPs.col(i-1)=P.row(i).transpose();
      Eigen::VectorXd ts=Eigen::Map<Eigen::VectorXd>(T.data(),N);
      m.setParameters(inPs,ts);
      coef=m.getCoeffs();
    }
    hx::Out o; o.str("e","build").i("obj",1).i("order",7).i("dim",3).str("how","ctor_durs").i("bcar",9).str("impl", which? "minco":"spline");
    o.v("T",T).d("t0",0.0).m("P",P);
    hx::Out bo; bo.v("sv",bc.start_velocity).v("sa",bc.start_acceleration).v("sj",bc.start_jerk).v("ev",bc.end_velocity).v("ea",bc.end_acceleration).v("ej",bc.end_jerk);
    o.raw("bc",bo.done());
    std::vector<double> cum(N+1,0.0); for(int i=0;i<N;++i) cum[i+1]=cum[i]+T[i];
    hx::Out r; r.b("init",true).i("nseg",N).i("npts",N+1).i("gdim",3).v("tsegs",T).v("cum",cum).d("start",0.0).d("end",cum[N]).d("dur",cum[N]);
    r.m("coef",coef).v("bp",cum).i("tnc",8).i("tnseg",N).b("tinit",true).m("pts",P).raw("gbc",bo.done());
    o.raw("out",r.done());
    fputs("{\"e\":\"reset\"}\n",f); fputs(o.done().c_str(),f); fputc('\n',f);
  }
  fclose(f);
}
