#!/bin/sh
# tools/verify_seeded.sh <id> <worktree with the change applied>
# Confirms a seeded change independently: the demonstration passes on /repo and fails on the changed tree, and the
# repository's stable tests still pass with the change.  Writes /verif/seeded/<id>/{patch.diff,demo.cpp,meta.json,confirm.txt}.
ID=$1; W=$2; V=/verif; S=$V/seeded/$ID
mkdir -p $S
cp $W/out/patch.diff $W/out/demo.cpp $S/ || exit 2
cp $W/out/meta.json $S/agent_meta.json 2>/dev/null
T=/var/tmp/verif-scratch-seed-$ID; rm -rf $T; mkdir -p $T
g++ -std=c++17 -O2 -ffp-contract=off -I /repo/include -I /usr/include/eigen3 $S/demo.cpp -o $T/demo_clean -pthread 2>$T/cc1.log
g++ -std=c++17 -O2 -ffp-contract=off -I $W/include -I /usr/include/eigen3 $S/demo.cpp -o $T/demo_mut -pthread 2>$T/cc2.log
(cd $T && timeout 600 ./demo_clean >$T/clean.out 2>&1); RC_CLEAN=$?
(cd $T && timeout 600 ./demo_mut >$T/mut.out 2>&1); RC_MUT=$?
cmake -G Ninja -S $W -B $T/b -DCMAKE_BUILD_TYPE=RelWithDebInfo >/dev/null 2>&1 && cmake --build $T/b -j6 >/dev/null 2>&1
: > $T/tests.log
for t in test_cost_grad test_cubic_spline_vs_minco_nd test_septic_spline_vs_minco_nd test_quintic_spline_vs_minco_nd test_Grad test_with_min_jerk_3d test_bc_grad test_with_min_snap_3d test_ppolyND; do
  (cd $T/b && timeout 900 ./$t >> $T/tests.log 2>&1) || echo "rc=$? for $t" >> $T/tests.log
done
python3 $V/lib/baseline_parse.py $T/tests.log > $T/parse.out 2>&1; RC_TESTS=$?
{
  echo "confirmed by tools/verify_seeded.sh on $(date -u +%Y-%m-%dT%H:%M:%SZ)"
  echo "demo on unchanged /repo: exit $RC_CLEAN (expected 0)"
  echo "demo on changed tree:    exit $RC_MUT (expected non-zero)"
  echo "stable tests with the change: exit $RC_TESTS -> $(cat $T/parse.out)"
  echo "--- demo output on changed tree (tail)"; tail -5 $T/mut.out
} > $S/confirm.txt
rm -rf $T
cat $S/confirm.txt
