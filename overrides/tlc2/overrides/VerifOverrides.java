package tlc2.overrides;

/** Registers the Rat module overrides with TLC (-Dtlc2.overrides.TLCOverrides=...:tlc2.overrides.VerifOverrides). */
public class VerifOverrides implements ITLCOverrides {
    @SuppressWarnings("rawtypes")
    @Override
    public Class[] get() {
        return new Class[] { RatOverrides.class };
    }
}
