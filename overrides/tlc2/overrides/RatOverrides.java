package tlc2.overrides;

import java.math.BigInteger;
import java.util.concurrent.ConcurrentHashMap;

import tlc2.value.impl.BoolValue;
import tlc2.value.impl.IntValue;
import tlc2.value.impl.StringValue;
import tlc2.value.impl.TupleValue;
import tlc2.value.impl.Value;
import tlc2.tool.EvalException;
import tlc2.output.EC;

/**
 * Exact rational arithmetic for the TLA+ module Rat.
 *
 * A rational is a TLA+ string in canonical form: "n" (integer) or "n/d" with d > 1, gcd(n,d) = 1,
 * decimal digits, optional leading '-'.  Canonical form makes TLA+ equality (=) coincide with
 * numerical equality.  Only scalar field arithmetic (plus two bulk folds that are pure speed-ups of
 * TLA+ definitions given in Rat.tla) lives here; everything else is TLA+.
 */
public final class RatOverrides {
    private RatOverrides() {}

    // ---------------------------------------------------------------- representation
    static final class Q {
        final BigInteger n, d;
        Q(BigInteger n, BigInteger d) { this.n = n; this.d = d; }
    }

    private static final ConcurrentHashMap<String, Q> CACHE = new ConcurrentHashMap<>();
    private static final int CACHE_MAX = 200000;

    static Q parse(final String s) {
        Q q = CACHE.get(s);
        if (q != null) return q;
        try {
            final int i = s.indexOf('/');
            if (i < 0) q = new Q(new BigInteger(s), BigInteger.ONE);
            else q = norm(new BigInteger(s.substring(0, i)), new BigInteger(s.substring(i + 1)));
        } catch (NumberFormatException e) {
            throw new EvalException(EC.GENERAL, "Rat: not a rational literal: \"" + s + "\"");
        }
        if (CACHE.size() > CACHE_MAX) CACHE.clear();
        CACHE.put(s, q);
        return q;
    }

    static Q norm(BigInteger n, BigInteger d) {
        if (d.signum() == 0) throw new EvalException(EC.GENERAL, "Rat: division by zero");
        if (d.signum() < 0) { n = n.negate(); d = d.negate(); }
        final BigInteger g = n.gcd(d);
        if (!g.equals(BigInteger.ONE) && g.signum() != 0) { n = n.divide(g); d = d.divide(g); }
        if (n.signum() == 0) d = BigInteger.ONE;
        return new Q(n, d);
    }

    static Value out(final Q q) {
        final String s = q.d.equals(BigInteger.ONE) ? q.n.toString() : q.n.toString() + "/" + q.d.toString();
        if (CACHE.size() > CACHE_MAX) CACHE.clear();
        CACHE.put(s, q);
        return new StringValue(s);
    }

    static Q q(final Value v) {
        if (v instanceof StringValue) return parse(((StringValue) v).val.toString());
        if (v instanceof IntValue) return new Q(BigInteger.valueOf(((IntValue) v).val), BigInteger.ONE);
        throw new EvalException(EC.GENERAL, "Rat: expected a rational (string) but got " + v.toString());
    }

    static Q add(Q a, Q b) { return norm(a.n.multiply(b.d).add(b.n.multiply(a.d)), a.d.multiply(b.d)); }
    static Q sub(Q a, Q b) { return norm(a.n.multiply(b.d).subtract(b.n.multiply(a.d)), a.d.multiply(b.d)); }
    static Q mul(Q a, Q b) { return norm(a.n.multiply(b.n), a.d.multiply(b.d)); }
    static Q div(Q a, Q b) { return norm(a.n.multiply(b.d), a.d.multiply(b.n)); }
    static int cmp(Q a, Q b) { return a.n.multiply(b.d).compareTo(b.n.multiply(a.d)); }

    // ---------------------------------------------------------------- field operations
    @TLAPlusOperator(identifier = "RAdd", module = "Rat", warn = false)
    public static Value rAdd(final Value a, final Value b) { return out(add(q(a), q(b))); }

    @TLAPlusOperator(identifier = "RSub", module = "Rat", warn = false)
    public static Value rSub(final Value a, final Value b) { return out(sub(q(a), q(b))); }

    @TLAPlusOperator(identifier = "RMul", module = "Rat", warn = false)
    public static Value rMul(final Value a, final Value b) { return out(mul(q(a), q(b))); }

    @TLAPlusOperator(identifier = "RDiv", module = "Rat", warn = false)
    public static Value rDiv(final Value a, final Value b) { return out(div(q(a), q(b))); }

    @TLAPlusOperator(identifier = "RNeg", module = "Rat", warn = false)
    public static Value rNeg(final Value a) { final Q x = q(a); return out(new Q(x.n.negate(), x.d)); }

    @TLAPlusOperator(identifier = "RAbs", module = "Rat", warn = false)
    public static Value rAbs(final Value a) { final Q x = q(a); return out(new Q(x.n.abs(), x.d)); }

    @TLAPlusOperator(identifier = "RCmp", module = "Rat", warn = false)
    public static Value rCmp(final Value a, final Value b) { return IntValue.gen(Integer.signum(cmp(q(a), q(b)))); }

    @TLAPlusOperator(identifier = "RLt", module = "Rat", warn = false)
    public static Value rLt(final Value a, final Value b) { return cmp(q(a), q(b)) < 0 ? BoolValue.ValTrue : BoolValue.ValFalse; }

    @TLAPlusOperator(identifier = "RLe", module = "Rat", warn = false)
    public static Value rLe(final Value a, final Value b) { return cmp(q(a), q(b)) <= 0 ? BoolValue.ValTrue : BoolValue.ValFalse; }

    @TLAPlusOperator(identifier = "RSign", module = "Rat", warn = false)
    public static Value rSign(final Value a) { return IntValue.gen(q(a).n.signum()); }

    @TLAPlusOperator(identifier = "RInt", module = "Rat", warn = false)
    public static Value rInt(final IntValue i) { return out(new Q(BigInteger.valueOf(i.val), BigInteger.ONE)); }

    @TLAPlusOperator(identifier = "RIsInt", module = "Rat", warn = false)
    public static Value rIsInt(final Value a) { return q(a).d.equals(BigInteger.ONE) ? BoolValue.ValTrue : BoolValue.ValFalse; }

    /** floor, as a rational that is an integer */
    @TLAPlusOperator(identifier = "RFloor", module = "Rat", warn = false)
    public static Value rFloor(final Value a) {
        final Q x = q(a);
        BigInteger[] qr = x.n.divideAndRemainder(x.d);
        BigInteger f = qr[0];
        if (qr[1].signum() < 0) f = f.subtract(BigInteger.ONE);
        return out(new Q(f, BigInteger.ONE));
    }

    /** an integral rational that fits an int, as a TLA+ integer */
    @TLAPlusOperator(identifier = "RToInt", module = "Rat", warn = false)
    public static Value rToInt(final Value a) {
        final Q x = q(a);
        if (!x.d.equals(BigInteger.ONE) || x.n.bitLength() > 31)
            throw new EvalException(EC.GENERAL, "Rat: RToInt of a non-integer or too wide value");
        return IntValue.gen(x.n.intValue());
    }

    @TLAPlusOperator(identifier = "RPow", module = "Rat", warn = false)
    public static Value rPow(final Value a, final IntValue k) {
        final Q x = q(a);
        int e = k.val;
        if (e >= 0) return out(new Q(x.n.pow(e), x.d.pow(e)));
        return out(norm(x.d.pow(-e), x.n.pow(-e)));
    }

    // ---------------------------------------------------------------- IEEE-754 binary64 <-> rational
    /** exact value of a C "%a" hex-float string ("0x1.8p+1", "-0x0p+0"); also accepts decimal integers */
    static Q fromHex(final String s0) {
        String s = s0.trim();
        boolean neg = false;
        if (s.startsWith("-")) { neg = true; s = s.substring(1); } else if (s.startsWith("+")) s = s.substring(1);
        if (!(s.startsWith("0x") || s.startsWith("0X"))) {
            // plain decimal integer or n/d
            Q v = parse(s);
            return neg ? new Q(v.n.negate(), v.d) : v;
        }
        s = s.substring(2);
        int p = s.indexOf('p'); if (p < 0) p = s.indexOf('P');
        int exp = 0;
        String mant = s;
        if (p >= 0) { exp = Integer.parseInt(s.substring(p + 1).replace("+", "")); mant = s.substring(0, p); }
        int dot = mant.indexOf('.');
        String digits = mant; int frac = 0;
        if (dot >= 0) { digits = mant.substring(0, dot) + mant.substring(dot + 1); frac = mant.length() - dot - 1; }
        BigInteger m = digits.isEmpty() ? BigInteger.ZERO : new BigInteger(digits, 16);
        int e2 = exp - 4 * frac;
        if (neg) m = m.negate();
        if (e2 >= 0) return new Q(m.shiftLeft(e2), BigInteger.ONE);
        return norm(m, BigInteger.ONE.shiftLeft(-e2));
    }

    static boolean isFiniteLit(final String s) {
        final String t = s.trim().toLowerCase();
        return !(t.contains("nan") || t.contains("inf"));
    }

    @TLAPlusOperator(identifier = "RFromHex", module = "Rat", warn = false)
    public static Value rFromHex(final StringValue s) {
        final String t = s.val.toString();
        if (!isFiniteLit(t)) throw new EvalException(EC.GENERAL, "Rat: RFromHex of a non-finite literal " + t);
        return out(fromHex(t));
    }

    @TLAPlusOperator(identifier = "RIsFiniteHex", module = "Rat", warn = false)
    public static Value rIsFiniteHex(final StringValue s) { return isFiniteLit(s.val.toString()) ? BoolValue.ValTrue : BoolValue.ValFalse; }

    /** "nan", "+inf", "-inf" or "fin" */
    @TLAPlusOperator(identifier = "RHexClass", module = "Rat", warn = false)
    public static Value rHexClass(final StringValue s) {
        final String t = s.val.toString().trim().toLowerCase();
        if (t.contains("nan")) return new StringValue("nan");
        if (t.contains("inf")) return new StringValue(t.startsWith("-") ? "-inf" : "+inf");
        return new StringValue("fin");
    }

    static double toDouble(final Q x) {
        // correctly rounded (round-half-even) conversion; inputs here are far from overflow/underflow
        if (x.n.signum() == 0) return 0.0;
        // scale so that quotient has >= 70 significant bits, then round-to-nearest-even by hand
        int shift = 80 - (x.n.bitLength() - x.d.bitLength());
        BigInteger num = x.n.abs(), den = x.d;
        if (shift > 0) num = num.shiftLeft(shift); else den = den.shiftLeft(-shift);
        BigInteger[] qr = num.divideAndRemainder(den);
        BigInteger qv = qr[0];
        if (qr[1].signum() != 0) qv = qv.shiftLeft(1).or(BigInteger.ONE); else qv = qv.shiftLeft(1); // sticky bit
        // qv * 2^(-shift-1)
        double r;
        // own rounding to 53 bits (round half even with sticky):
        int bl = qv.bitLength();
        int drop = bl - 53;
        BigInteger m = qv;
        long e = -(long) shift - 1;
        if (drop > 0) {
            BigInteger low = qv.and(BigInteger.ONE.shiftLeft(drop).subtract(BigInteger.ONE));
            m = qv.shiftRight(drop);
            BigInteger half = BigInteger.ONE.shiftLeft(drop - 1);
            int c = low.compareTo(half);
            if (c > 0 || (c == 0 && m.testBit(0))) m = m.add(BigInteger.ONE);
            e += drop;
        }
        r = Math.scalb(m.doubleValue(), (int) Math.max(-2000, Math.min(2000, e)));
        return x.n.signum() < 0 ? -r : r;
    }

    /** nearest double, as a hex-float string (for reports and for building harness inputs from spec values) */
    @TLAPlusOperator(identifier = "RToHex", module = "Rat", warn = false)
    public static Value rToHex(final Value a) { return new StringValue(Double.toHexString(toDouble(q(a)))); }

    /** short decimal rendering for reports, e.g. "1.234e-07" */
    @TLAPlusOperator(identifier = "RShow", module = "Rat", warn = false)
    public static Value rShow(final Value a) { return new StringValue(String.format("%.6g", toDouble(q(a)))); }

    /** unit in the last place of the binary64 number with the given literal (2^-1074 for zero and subnormals) */
    @TLAPlusOperator(identifier = "RUlpHex", module = "Rat", warn = false)
    public static Value rUlpHex(final StringValue s) {
        final double v = toDouble(fromHex(s.val.toString()));
        final double u = Math.ulp(v);
        return out(fromHex(Double.toHexString(u)));
    }

    /** TRUE iff the rational is exactly representable as a binary64 number */
    @TLAPlusOperator(identifier = "RIsDouble", module = "Rat", warn = false)
    public static Value rIsDouble(final Value a) {
        final Q x = q(a);
        final double v = toDouble(x);
        if (Double.isInfinite(v)) return BoolValue.ValFalse;
        return cmp(fromHex(Double.toHexString(v)), x) == 0 ? BoolValue.ValTrue : BoolValue.ValFalse;
    }

    /** largest rational k/10^digits with (k/10^digits)^2 <= x  (x >= 0) */
    @TLAPlusOperator(identifier = "RSqrtLo", module = "Rat", warn = false)
    public static Value rSqrtLo(final Value a, final IntValue digits) {
        final Q x = q(a);
        if (x.n.signum() < 0) throw new EvalException(EC.GENERAL, "Rat: RSqrtLo of a negative value");
        final BigInteger s = BigInteger.TEN.pow(digits.val);
        // floor(sqrt(x) * s) = floor(sqrt(n * s^2 / d))
        final BigInteger t = x.n.multiply(s).multiply(s).divide(x.d);
        return out(norm(t.sqrt(), s));
    }

    @TLAPlusOperator(identifier = "RSqrtHi", module = "Rat", warn = false)
    public static Value rSqrtHi(final Value a, final IntValue digits) {
        final Q x = q(a);
        if (x.n.signum() < 0) throw new EvalException(EC.GENERAL, "Rat: RSqrtHi of a negative value");
        final BigInteger s = BigInteger.TEN.pow(digits.val);
        final BigInteger t = x.n.multiply(s).multiply(s).divide(x.d);
        return out(norm(t.sqrt().add(BigInteger.ONE), s));
    }

    // ---------------------------------------------------------------- deep forcing of lazy values
    /**
     * TLC evaluates [x \in S |-> e] to a lazy lambda whose every application re-evaluates e, and TLCEval only forces the
     * outermost level.  Force(v) converts v and everything nested in it (sequences, functions, records) to explicit values.
     * It is the identity on values (the TLA+ definition in Rat.tla is Force(v) == v).
     */
    static Value force(Value v) {
        if (v instanceof tlc2.value.impl.FcnLambdaValue) {
            Value t = v.toTuple();
            if (t == null) t = v.toFcnRcd();
            if (t != null) v = t;
        }
        if (v instanceof TupleValue) {
            final Value[] e = ((TupleValue) v).elems;
            final Value[] n = new Value[e.length];
            for (int i = 0; i < e.length; i++) n[i] = force(e[i]);
            return new TupleValue(n);
        }
        if (v instanceof tlc2.value.impl.FcnRcdValue) {
            final tlc2.value.impl.FcnRcdValue f = (tlc2.value.impl.FcnRcdValue) v;
            final Value[] n = new Value[f.values.length];
            for (int i = 0; i < n.length; i++) n[i] = force(f.values[i]);
            if (f.intv != null) return new tlc2.value.impl.FcnRcdValue(f.intv, n);
            return new tlc2.value.impl.FcnRcdValue(f.domain.clone(), n, f.isNormalized());
        }
        if (v instanceof tlc2.value.impl.RecordValue) {
            final tlc2.value.impl.RecordValue r = (tlc2.value.impl.RecordValue) v;
            final Value[] n = new Value[r.values.length];
            for (int i = 0; i < n.length; i++) n[i] = force(r.values[i]);
            return new tlc2.value.impl.RecordValue(r.names.clone(), n, r.isNormalized());   // names cloned: normalisation sorts the arrays in place
        }
        return v;
    }

    @TLAPlusOperator(identifier = "Force", module = "Rat", warn = false)
    public static Value forceOp(final Value v) { return force(v); }

    // ---------------------------------------------------------------- bulk folds (speed-ups of TLA+ definitions in Rat.tla)
    static Value[] elems(final Value v) {
        final TupleValue t = (TupleValue) v.toTuple();
        if (t == null) throw new EvalException(EC.GENERAL, "Rat: expected a sequence but got " + v.toString());
        return t.elems;
    }

    @TLAPlusOperator(identifier = "RSum", module = "Rat", warn = false)
    public static Value rSum(final Value seq) {
        BigInteger n = BigInteger.ZERO, d = BigInteger.ONE;
        for (Value e : elems(seq)) { Q x = q(e); n = n.multiply(x.d).add(x.n.multiply(d)); d = d.multiply(x.d);
            if (d.bitLength() > 4096) { Q r = norm(n, d); n = r.n; d = r.d; } }
        return out(norm(n, d));
    }

    @TLAPlusOperator(identifier = "RDot", module = "Rat", warn = false)
    public static Value rDot(final Value s1, final Value s2) {
        final Value[] a = elems(s1), b = elems(s2);
        if (a.length != b.length) throw new EvalException(EC.GENERAL, "Rat: RDot of sequences of different length");
        BigInteger n = BigInteger.ZERO, d = BigInteger.ONE;
        for (int i = 0; i < a.length; i++) {
            Q x = q(a[i]), y = q(b[i]);
            if (x.n.signum() == 0 || y.n.signum() == 0) continue;
            BigInteger pn = x.n.multiply(y.n), pd = x.d.multiply(y.d);
            n = n.multiply(pd).add(pn.multiply(d)); d = d.multiply(pd);
            if (d.bitLength() > 4096) { Q r = norm(n, d); n = r.n; d = r.d; }
        }
        return out(norm(n, d));
    }

    /** Horner evaluation of sum_k c[k+1] x^k */
    @TLAPlusOperator(identifier = "RHorner", module = "Rat", warn = false)
    public static Value rHorner(final Value coeffs, final Value x0) {
        final Value[] c = elems(coeffs);
        final Q x = q(x0);
        Q r = new Q(BigInteger.ZERO, BigInteger.ONE);
        for (int k = c.length - 1; k >= 0; k--) r = add(mul(r, x), q(c[k]));
        return out(r);
    }

    /**
     * Solve A X = B exactly (A: n x n, B: n x m, both sequences of row sequences) by Gaussian elimination with
     * first-non-zero pivoting.  Speed-up of the TLA+ operator Numerics!Solve, against which it is differentially
     * tested by spec/SelfTestRat.tla.  Raises an evaluation error if A is singular.
     */
    @TLAPlusOperator(identifier = "RSolveFast", module = "Numerics", warn = false)
    public static Value rSolveFast(final Value A0, final Value B0) {
        final Value[] ar = elems(A0), br = elems(B0);
        final int n = ar.length;
        if (br.length != n) throw new EvalException(EC.GENERAL, "Rat: RSolveFast dimension mismatch");
        final int m = n == 0 ? 0 : elems(br[0]).length;
        // fraction-free is possible, but plain rationals with normalisation are fast enough at n <= 60
        final Q[][] M = new Q[n][n + m];
        for (int i = 0; i < n; i++) {
            Value[] r = elems(ar[i]), b = elems(br[i]);
            if (r.length != n || b.length != m) throw new EvalException(EC.GENERAL, "Rat: RSolveFast ragged matrix");
            for (int j = 0; j < n; j++) M[i][j] = q(r[j]);
            for (int j = 0; j < m; j++) M[i][n + j] = q(b[j]);
        }
        for (int c = 0; c < n; c++) {
            int p = -1;
            for (int i = c; i < n; i++) if (M[i][c].n.signum() != 0) { p = i; break; }
            if (p < 0) throw new EvalException(EC.GENERAL, "Rat: RSolveFast singular matrix");
            Q[] t = M[p]; M[p] = M[c]; M[c] = t;
            final Q piv = M[c][c];
            for (int j = c; j < n + m; j++) M[c][j] = div(M[c][j], piv);
            for (int i = 0; i < n; i++) {
                if (i == c) continue;
                final Q f = M[i][c];
                if (f.n.signum() == 0) continue;
                for (int j = c; j < n + m; j++) {
                    if (M[c][j].n.signum() == 0) continue;
                    M[i][j] = sub(M[i][j], mul(f, M[c][j]));
                }
            }
        }
        final Value[] rows = new Value[n];
        for (int i = 0; i < n; i++) {
            final Value[] r = new Value[m];
            for (int j = 0; j < m; j++) r[j] = out(M[i][n + j]);
            rows[i] = new TupleValue(r);
        }
        return new TupleValue(rows);
    }
}
