// Script replayer for SplineOptimizer.  usage: opt_replay <script.ndjson> <trace.ndjson>
#include "opt_iface.hpp"

#define OPD(O, D) \
    IOpt *make_opt_##O##_##D##_qi(); \
    IOpt *make_opt_##O##_##D##_ql(); \
    IOpt *make_opt_##O##_##D##_si(); \
    IOpt *make_opt_##O##_##D##_sl();
#define OPO(O) OPD(O, 1) OPD(O, 2) OPD(O, 3) OPD(O, 4)
OPO(3)
OPO(5)
OPO(7)

IOpt *make_opt(int order, int dim, const std::string &tm, const std::string &sm)
{
#define OPC(O, D) \
    if (order == O && dim == D) \
    { \
        if (tm == "quad" && sm == "id") return make_opt_##O##_##D##_qi(); \
        if (tm == "quad" && sm == "lift") return make_opt_##O##_##D##_ql(); \
        if (tm == "sq" && sm == "id") return make_opt_##O##_##D##_si(); \
        if (tm == "sq" && sm == "lift") return make_opt_##O##_##D##_sl(); \
    }
#define OPCO(O) OPC(O, 1) OPC(O, 2) OPC(O, 3) OPC(O, 4)
    OPCO(3)
    OPCO(5)
    OPCO(7)
    return nullptr;
}

int main(int argc, char **argv)
{
    if (argc < 3)
        return 2;
    std::set_terminate(hx::on_terminate);
    std::signal(SIGABRT, hx::on_signal);
    std::signal(SIGSEGV, hx::on_signal);
    std::ifstream in(argv[1]);
    hx::trace().open(argv[2]);
    std::map<long, std::unique_ptr<IOpt>> objs;
    Registry reg;
    std::string line;
    while (std::getline(in, line))
    {
        if (line.empty())
            continue;
        hx::json cmd = hx::json::parse(line);
        const std::string op = cmd["op"];
        hx::Out o;
        o.str("e", op);
        for (auto it = cmd.begin(); it != cmd.end(); ++it)
            if (it.key() != "op")
                o.raw(it.key().c_str(), it.value().dump());
        try
        {
            if (op == "reset")
            {
                for (auto &kv : objs)
                    if (kv.second)
                        kv.second->destroy_poison();
                objs.clear();
                reg = Registry();
            }
            else if (op == "note")
            {
            }
            else if (op == "opt_new")
            {
                const long id = cmd["obj"];
                objs[id].reset(make_opt(cmd["order"], cmd["dim"], cmd["tm"], cmd["sm"]));
                hx::Out r;
                objs[id]->call(op, cmd, r, reg);
                o.raw("out", r.done());
            }
            else if (op == "opt_copy")
            {
                objs[(long)cmd["dst"]].reset(objs.at((long)cmd["src"])->copy_construct());
            }
            else if (op == "opt_assign")
            {
                objs.at((long)cmd["dst"])->assign_from(objs.at((long)cmd["src"]).get());
            }
            else if (op == "opt_destroy")
            {
                objs.at((long)cmd["obj"])->destroy_poison();
                objs.erase((long)cmd["obj"]);
            }
            else if (op == "tmap_new")
            {
                auto mp = std::make_shared<SqTimeMap>();
                mp->scale = hx::num(cmd["scale"]);
                reg.tmaps[(long)cmd["map"]] = mp;
            }
            else if (op == "tmap_set")
                reg.tmaps.at((long)cmd["map"])->scale = hx::num(cmd["scale"]);
            else if (op == "smap_new")
            {
                reg.smap_gain[(long)cmd["map"]] = hx::num(cmd["gain"]);
                reg.smap_pin[(long)cmd["map"]] = cmd.value("pin", -1);
            }
            else if (op == "smap_set")
            {
                const long id = cmd["map"];
                const double g = hx::num(cmd["gain"]);
                reg.smap_gain.at(id) = g;
                for (auto &kv : reg.smap_setters)
                    if (kv.first.first == id)
                        kv.second(g); // the user mutates the map in place: every optimizer referencing it sees the change
            }
            else if (op == "ws_destroy")
            {
                reg.wss.erase((long)cmd["ws"]);
                reg.ws_family.erase((long)cmd["ws"]);
            }
            else
            {
                hx::Out r;
                objs.at((long)cmd["obj"])->call(op, cmd, r, reg);
                o.raw("out", r.done());
            }
        }
        catch (const std::exception &ex)
        {
            o.str("exception", ex.what());
        }
        hx::trace().emit(o.done());
    }
    hx::trace().flush();
    return 0;
}
