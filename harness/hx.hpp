// Common helpers of the conformance replayers: hex-float I/O, ndjson output, script reading.
// The replayers only EXECUTE calls on the real classes and RECORD arguments and exact result bits;
// all judging happens in TLC (spec/Trace*.tla).
#pragma once
#include <nlohmann/json.hpp>
#include <Eigen/Dense>
#include <cstdio>
#include <cstdlib>
#include <cmath>
#include <string>
#include <vector>
#include <map>
#include <memory>
#include <fstream>
#include <iostream>
#include <exception>
#include <unistd.h>
#include <csignal>

namespace hx
{
    using json = nlohmann::json;

    inline std::string hex(double v)
    {
        if (std::isnan(v))
            return "nan";
        if (std::isinf(v))
            return v > 0 ? "inf" : "-inf";
        char buf[64];
        std::snprintf(buf, sizeof buf, "%a", v);
        return buf;
    }

    inline double num(const json &j)
    {
        if (j.is_string())
        {
            const std::string s = j.get<std::string>();
            return std::strtod(s.c_str(), nullptr); // accepts %a literals, nan, inf
        }
        return j.get<double>();
    }

    inline std::vector<double> vec(const json &j)
    {
        std::vector<double> v;
        v.reserve(j.size());
        for (const auto &e : j)
            v.push_back(num(e));
        return v;
    }

    // dynamic matrix from [[..],[..]]; an empty list gives a 0 x cols matrix
    inline Eigen::MatrixXd mat(const json &j, int cols)
    {
        Eigen::MatrixXd m(j.size(), cols);
        for (size_t r = 0; r < j.size(); ++r)
            for (int c = 0; c < cols; ++c)
                m(r, c) = num(j[r][c]);
        return m;
    }

    // ---------- output: a tiny JSON writer (all reals as "%a" strings) ----------
    struct Out
    {
        std::string s;
        bool first = true;
        Out() { s = "{"; }
        void key(const char *k)
        {
            if (!first)
                s += ",";
            first = false;
            s += "\"";
            s += k;
            s += "\":";
        }
        Out &str(const char *k, const std::string &v)
        {
            key(k);
            s += "\"" + v + "\"";
            return *this;
        }
        Out &i(const char *k, long v)
        {
            key(k);
            s += std::to_string(v);
            return *this;
        }
        Out &b(const char *k, bool v)
        {
            key(k);
            s += v ? "true" : "false";
            return *this;
        }
        Out &d(const char *k, double v)
        {
            key(k);
            s += "\"" + hex(v) + "\"";
            return *this;
        }
        Out &raw(const char *k, const std::string &v)
        {
            key(k);
            s += v;
            return *this;
        }
        template <typename V>
        Out &v(const char *k, const V &x)
        {
            key(k);
            s += vstr(x);
            return *this;
        }
        template <typename M>
        Out &m(const char *k, const M &x)
        {
            key(k);
            s += mstr(x);
            return *this;
        }
        std::string done()
        {
            return s + "}";
        }
        template <typename V>
        static std::string vstr(const V &x)
        {
            std::string r = "[";
            for (long i = 0; i < (long)x.size(); ++i)
            {
                if (i)
                    r += ",";
                r += "\"" + hex(x[i]) + "\"";
            }
            return r + "]";
        }
        template <typename M>
        static std::string mstr(const M &x)
        {
            std::string r = "[";
            for (long i = 0; i < x.rows(); ++i)
            {
                if (i)
                    r += ",";
                r += "[";
                for (long j = 0; j < x.cols(); ++j)
                {
                    if (j)
                        r += ",";
                    r += "\"" + hex(x(i, j)) + "\"";
                }
                r += "]";
            }
            return r + "]";
        }
    };

    struct Trace
    {
        FILE *f = nullptr;
        long lines = 0;
        void open(const char *path) { f = std::fopen(path, "w"); }
        void emit(const std::string &line)
        {
            std::fputs(line.c_str(), f);
            std::fputc('\n', f);
            ++lines;
        }
        void flush()
        {
            if (f)
                std::fflush(f);
        }
    };

    inline Trace &trace()
    {
        static Trace t;
        return t;
    }

    // Never let a crash truncate a trace silently: log it as an event and leave.
    inline void on_terminate()
    {
        Out o;
        o.str("e", "crash").str("what", "std::terminate");
        trace().emit(o.done());
        trace().flush();
        _exit(0);
    }

    // aborts (assertions of the library / Eigen, sanitizer-free builds) and segmentation faults are logged as an event as well
    inline void on_signal(int sig)
    {
        Out o;
        o.str("e", "crash").str("what", sig == 6 ? "SIGABRT" : sig == 11 ? "SIGSEGV" : "signal").i("signal", sig);
        trace().emit(o.done());
        trace().flush();
        _exit(0);
    }

    inline std::string echo(const json &cmd, const char *k)
    {
        return cmd.contains(k) ? cmd[k].dump() : std::string("null");
    }
}
