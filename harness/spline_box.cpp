// One translation unit per (SP_ORDER, SP_DIM): wraps the real spline class behind ISpline.
#include "spline_iface.hpp"
#include "SplineTrajectory.hpp"

#ifndef SP_ORDER
#error "compile with -DSP_ORDER=3|5|7 -DSP_DIM=1..10"
#endif

using namespace SplineTrajectory;

template <int ORDER, int DIM>
struct Pick;
template <int DIM>
struct Pick<3, DIM>
{
    using type = CubicSplineND<DIM>;
};
template <int DIM>
struct Pick<5, DIM>
{
    using type = QuinticSplineND<DIM>;
};
template <int DIM>
struct Pick<7, DIM>
{
    using type = SepticSplineND<DIM>;
};

template <int ORDER, int DIM>
struct Box : ISpline
{
    using S = typename Pick<ORDER, DIM>::type;
    using Mat = typename S::MatrixType;
    using Vec = typename S::VectorType;
    using BC = BoundaryConditions<DIM>;
    std::unique_ptr<S> sp;
    // caller-provided output arguments that live as long as the object: "reuse" hands them over as the last call left them (possibly
    // sized for another segment count), "dirty" first gives them the right shape and fills them with garbage
    typename S::Gradients pg;
    Mat pgc;
    Eigen::VectorXd pgt;
    static constexpr double GARBAGE = 7.25;
    void dirtyOutputs(const std::string &via)
    {
        if (via != "dirty")
            return;
        const int n = sp->getNumSegments();
        pg.inner_points = Mat::Constant(std::max(0, n - 1), DIM, GARBAGE);
        pg.times = Eigen::VectorXd::Constant(n, -GARBAGE);
        pg.start.p.setConstant(GARBAGE);
        pg.start.v.setConstant(GARBAGE);
        pg.end.p.setConstant(-GARBAGE);
        pg.end.v.setConstant(-GARBAGE);
        if constexpr (ORDER >= 5)
        {
            pg.start.a.setConstant(GARBAGE);
            pg.end.a.setConstant(GARBAGE);
        }
        if constexpr (ORDER >= 7)
        {
            pg.start.j.setConstant(-GARBAGE);
            pg.end.j.setConstant(GARBAGE);
        }
        pgc = Mat::Constant((ORDER + 1) * n, DIM, GARBAGE);
        pgt = Eigen::VectorXd::Constant(n, GARBAGE);
    }

    int order() const override { return ORDER; }
    int dim() const override { return DIM; }

    static Vec v(const hx::json &j)
    {
        Vec r;
        for (int c = 0; c < DIM; ++c)
            r(c) = hx::num(j[c]);
        return r;
    }
    static Mat m(const hx::json &j)
    {
        Mat r(j.size(), DIM);
        for (size_t i = 0; i < j.size(); ++i)
            for (int c = 0; c < DIM; ++c)
                r(i, c) = hx::num(j[i][c]);
        return r;
    }
    // boundary conditions through the constructor of the requested arity (0 = default, "f" = field assignment)
    static BC bc(const hx::json &cmd)
    {
        const hx::json &b = cmd["bc"];
        const int ar = cmd.value("bcar", 6);
        if (ar == 0)
            return BC();
        if (ar == 2)
            return BC(v(b["sv"]), v(b["ev"]));
        if (ar == 4)
            return BC(v(b["sv"]), v(b["sa"]), v(b["ev"]), v(b["ea"]));
        if (ar == 6)
            return BC(v(b["sv"]), v(b["sa"]), v(b["sj"]), v(b["ev"]), v(b["ea"]), v(b["ej"]));
        BC r;
        r.start_velocity = v(b["sv"]);
        r.start_acceleration = v(b["sa"]);
        r.start_jerk = v(b["sj"]);
        r.end_velocity = v(b["ev"]);
        r.end_acceleration = v(b["ea"]);
        r.end_jerk = v(b["ej"]);
        return r;
    }

    void logState(hx::Out &o) const
    {
        const S &s = *sp;
        o.b("init", s.isInitialized()).i("nseg", s.getNumSegments()).i("npts", (long)s.getNumPoints()).i("gdim", s.getDimension());
        o.v("tsegs", s.getTimeSegments()).v("cum", s.getCumulativeTimes());
        o.d("start", s.getStartTime()).d("end", s.getEndTime()).d("dur", s.getDuration());
        o.m("coef", s.getTrajectory().getCoefficients());
        o.v("bp", s.getTrajectory().getBreakpoints());
        o.i("tnc", s.getTrajectory().getNumCoeffs()).i("tnseg", s.getTrajectory().getNumSegments()).b("tinit", s.getTrajectory().isInitialized());
        o.m("pts", s.getSpacePoints());
        const BC &b = s.getBoundaryConditions();
        hx::Out bo;
        bo.v("sv", b.start_velocity).v("sa", b.start_acceleration).v("sj", b.start_jerk);
        bo.v("ev", b.end_velocity).v("ea", b.end_acceleration).v("ej", b.end_jerk);
        o.raw("gbc", bo.done());
    }

    void build(const hx::json &cmd, hx::Out &o) override
    {
        const std::string how = cmd["how"];
        const Mat P = m(cmd["P"]);
        const BC b = bc(cmd);
        if (how == "ctor_durs")
            sp.reset(new S(hx::vec(cmd["T"]), P, hx::num(cmd["t0"]), b));
        else if (how == "ctor_pts")
            sp.reset(new S(hx::vec(cmd["tp"]), P, b));
        else
        {
            if (!sp)
                sp.reset(new S());
            if (how == "upd_durs")
                sp->update(hx::vec(cmd["T"]), P, hx::num(cmd["t0"]), b);
            else
                sp->update(hx::vec(cmd["tp"]), P, b);
        }
        logState(o);
    }

    template <typename G>
    static std::string bgrads(const G &g)
    {
        hx::Out o;
        o.v("p", g.p).v("v", g.v);
        if constexpr (ORDER >= 5)
            o.v("a", g.a);
        if constexpr (ORDER >= 7)
            o.v("j", g.j);
        return o.done();
    }
    template <typename G>
    static void logGrads(hx::Out &o, const G &g)
    {
        o.m("inner", g.inner_points).v("times", g.times).raw("gs", bgrads(g.start)).raw("ge", bgrads(g.end));
    }

    void query(const std::string &kind, const hx::json &cmd, hx::Out &o) override
    {
        S &s = *sp;
        const auto &traj = s.getTrajectory();
        if (kind == "state")
            logState(o);
        else if (kind == "eval")
        {
            const int d = cmd["d"];
            o.v("val", traj.evaluate(hx::num(cmd["t"]), d));
        }
        else if (kind == "segeval")
        {
            const int d = cmd["d"];
            const int i = cmd["seg"];
            o.v("val", traj[i].evaluate(hx::num(cmd["tau"]), d));
        }
        else if (kind == "knots")
        {
            // value and derivatives 0..s-1 at every knot through the global route (right-continuous),
            // and the left limits through the per-segment route
            const int sh = (ORDER + 1) / 2;
            const auto &cum = s.getCumulativeTimes();
            const int n = s.getNumSegments();
            std::string kv = "[", lv = "[", rv = "[", sd = "[";
            // the knots are visited in ascending or ("desc") descending order; the values are reported in index order either way, together
            // with the highest derivative of the pieces (it jumps at the knots: evaluation is right-continuous whatever was asked before)
            const bool desc = cmd.value("desc", false);
            std::vector<std::string> kvs(n + 1), kjs(n + 1);
            for (int q = 0; q <= n; ++q)
            {
                const int i = desc ? n - q : q;
                std::string e = "[";
                for (int d = 0; d < sh; ++d)
                {
                    if (d)
                        e += ",";
                    e += hx::Out::vstr(traj.evaluate(cum[i], d));
                }
                kvs[i] = e + "]";
                kjs[i] = hx::Out::vstr(traj.evaluate(cum[i], ORDER));
            }
            std::string kj = "[";
            for (int i = 0; i <= n; ++i)
            {
                if (i)
                {
                    kv += ",";
                    kj += ",";
                }
                kv += kvs[i];
                kj += kjs[i];
            }
            o.raw("kj", kj + "]");
            for (int i = 0; i < n; ++i)
            {
                if (i)
                {
                    lv += ",";
                    rv += ",";
                    sd += ",";
                }
                lv += "[";
                rv += "[";
                const double du = traj[i].duration();
                sd += "\"" + hx::hex(du) + "\"";
                for (int d = 0; d < sh; ++d)
                {
                    if (d)
                    {
                        lv += ",";
                        rv += ",";
                    }
                    lv += hx::Out::vstr(traj[i].evaluate(du, d));
                    rv += hx::Out::vstr(traj[i].evaluate(0.0, d));
                }
                lv += "]";
                rv += "]";
            }
            o.raw("kv", kv + "]").raw("lv", lv + "]").raw("rv", rv + "]").raw("segdur", sd + "]");
        }
        else if (kind == "energy")
            o.d("val", s.getEnergy());
        else if (kind == "egrad")
        {
            const std::string via = cmd.value("via", "struct");
            if (via == "reuse" || via == "dirty")
            {
                dirtyOutputs(via);
                s.getEnergyGrad(pg);
                logGrads(o, pg);
            }
            else if (via == "ref")
            {
                typename S::Gradients g;
                s.getEnergyGrad(g);
                logGrads(o, g);
            }
            else if (cmd.value("via", "struct") == std::string("parts"))
            {
                typename S::Gradients g;
                g.inner_points = s.getEnergyGradInnerPoints();
                g.times = s.getEnergyGradTimes();
                auto bd = s.getEnergyGradBoundary();
                g.start = bd.start;
                g.end = bd.end;
                logGrads(o, g);
            }
            else
                logGrads(o, s.getEnergyGrad());
        }
        else if (kind == "epartial")
        {
            const std::string via = cmd.value("via", "ret");
            if (via == "reuse" || via == "dirty")
            {
                dirtyOutputs(via);
                s.getEnergyPartialGradByCoeffs(pgc);
                s.getEnergyPartialGradByTimes(pgt);
                o.m("gdC", pgc).v("gdT", pgt);
            }
            else if (via == "ref")
            {
                Mat gc;
                Eigen::VectorXd gt;
                s.getEnergyPartialGradByCoeffs(gc);
                s.getEnergyPartialGradByTimes(gt);
                o.m("gdC", gc).v("gdT", gt);
            }
            else
                o.m("gdC", s.getEnergyPartialGradByCoeffs()).v("gdT", s.getEnergyPartialGradByTimes());
        }
        else if (kind == "prop")
        {
            const Mat gc = m(cmd["gdC"]);
            const std::vector<double> gtv = hx::vec(cmd["gdT"]);
            Eigen::VectorXd gt = Eigen::Map<const Eigen::VectorXd>(gtv.data(), gtv.size());
            const std::string via = cmd.value("via", "ret");
            if (via == "reuse" || via == "dirty")
            {
                dirtyOutputs(via);
                s.propagateGrad(gc, gt, pg);
                logGrads(o, pg);
            }
            else if (via == "ref")
            {
                typename S::Gradients g;
                s.propagateGrad(gc, gt, g);
                logGrads(o, g);
            }
            else
                logGrads(o, s.propagateGrad(gc, gt));
        }
        else if (kind == "prop_epartial")
        {
            const Mat gc = s.getEnergyPartialGradByCoeffs();
            const Eigen::VectorXd gt = s.getEnergyPartialGradByTimes();
            logGrads(o, s.propagateGrad(gc, gt));
        }
        else if (kind == "tseq")
        {
            o.v("seq", traj.generateTimeSequence(hx::num(cmd["dt"])));
        }
        else if (kind == "length")
        {
            o.d("val", traj.getTrajectoryLength(hx::num(cmd["dt"])));
        }
        else
            o.str("error", "unknown query");
    }

    ISpline *clone() const override
    {
        auto *b = new Box<ORDER, DIM>();
        if (sp)
            b->sp.reset(new S(*sp));
        return b;
    }
    void assign(const ISpline *src) override
    {
        const auto *o = dynamic_cast<const Box<ORDER, DIM> *>(src);
        if (!o || !o->sp)
            return;
        if (!sp)
            sp.reset(new S());
        *sp = *o->sp;
    }
};

#define SP_CAT2(a, b, c) make_spline_##a##_##b
#define SP_CAT(a, b) SP_CAT2(a, b, 0)
ISpline *SP_CAT(SP_ORDER, SP_DIM)()
{
    return new Box<SP_ORDER, SP_DIM>();
}
