// Type-erased handle on PPolyND<DIM, ORDER> for the script replayer.
#pragma once
#include "hx.hpp"

struct IPPoly
{
    virtual ~IPPoly() {}
    virtual int dim() const = 0;
    virtual int ord() const = 0; // -1 = Eigen::Dynamic
    virtual void construct(const hx::json &cmd) = 0;   // PPolyND(bp, C, nc)
    virtual void update(const hx::json &cmd) = 0;      // update(bp, C, nc)
    virtual void factory(const hx::json &cmd) = 0;     // zero(...) / constant(...)
    virtual IPPoly *clone() const = 0;
    virtual void assign(const IPPoly *src) = 0;
    virtual IPPoly *derivative(int k) const = 0;
    virtual void info(hx::Out &o) const = 0;
    virtual void query(const std::string &kind, const hx::json &cmd, hx::Out &o, std::map<long, int> &hints) = 0;
};

#define PP_FOR_ALL(X) \
    X(1, -1) X(1, 4) X(1, 6) X(1, 8) X(1, 12) \
    X(2, -1) X(2, 4) X(2, 6) X(2, 8) X(2, 12) \
    X(3, -1) X(3, 4) X(3, 6) X(3, 8) X(3, 12) \
    X(4, -1) X(4, 4) X(4, 6) X(4, 8) X(4, 12)

#define PP_NAME2(D, O) make_ppoly_##D##_##O
#define PP_DECL(D, O) IPPoly *make_ppoly_d##D##_o(int);
IPPoly *make_ppoly(int dim, int ord);
