// Script replayer for PPolyND.  usage: ppoly_replay <script.ndjson> <trace.ndjson>
#include "ppoly_iface.hpp"

#define PP_D(D) \
    IPPoly *make_ppoly_##D##_dyn(); \
    IPPoly *make_ppoly_##D##_4(); \
    IPPoly *make_ppoly_##D##_6(); \
    IPPoly *make_ppoly_##D##_8(); \
    IPPoly *make_ppoly_##D##_12();
PP_D(1)
PP_D(2)
PP_D(3)
PP_D(4)

IPPoly *make_ppoly(int dim, int ord)
{
#define PP_C(D) \
    if (dim == D) \
    { \
        if (ord < 0) return make_ppoly_##D##_dyn(); \
        if (ord == 4) return make_ppoly_##D##_4(); \
        if (ord == 6) return make_ppoly_##D##_6(); \
        if (ord == 8) return make_ppoly_##D##_8(); \
        if (ord == 12) return make_ppoly_##D##_12(); \
    }
    PP_C(1)
    PP_C(2)
    PP_C(3)
    PP_C(4)
    return nullptr;
}

int main(int argc, char **argv)
{
    if (argc < 3)
        return 2;
    std::set_terminate(hx::on_terminate);
    std::signal(SIGABRT, hx::on_signal);
    std::signal(SIGSEGV, hx::on_signal);
    std::ifstream in(argv[1]);
    hx::trace().open(argv[2]);
    std::map<long, std::unique_ptr<IPPoly>> objs;
    std::map<long, int> hints;
    std::string line;
    while (std::getline(in, line))
    {
        if (line.empty())
            continue;
        hx::json cmd = hx::json::parse(line);
        const std::string op = cmd["op"];
        hx::Out o;
        o.str("e", op);
        for (auto it = cmd.begin(); it != cmd.end(); ++it)
            if (it.key() != "op")
                o.raw(it.key().c_str(), it.value().dump());
        try
        {
            if (op == "reset")
            {
                objs.clear();
                hints.clear();
            }
            else if (op == "new" || op == "ctor" || op == "factory")
            {
                const long id = cmd["obj"];
                objs[id].reset(make_ppoly(cmd["dim"], cmd["ord"]));
                if (op == "ctor")
                    objs[id]->construct(cmd);
                else if (op == "factory")
                    objs[id]->factory(cmd);
                hx::Out r;
                objs[id]->info(r);
                o.raw("out", r.done());
            }
            else if (op == "update")
            {
                objs.at(cmd["obj"])->update(cmd);
                hx::Out r;
                objs.at(cmd["obj"])->info(r);
                o.raw("out", r.done());
            }
            else if (op == "copy")
            {
                objs[cmd["dst"]].reset(objs.at(cmd["src"])->clone());
                hx::Out r;
                objs.at(cmd["dst"])->info(r);
                o.raw("out", r.done());
            }
            else if (op == "assign")
            {
                objs.at(cmd["dst"])->assign(objs.at(cmd["src"]).get());
                hx::Out r;
                objs.at(cmd["dst"])->info(r);
                o.raw("out", r.done());
            }
            else if (op == "derivative")
            {
                objs[cmd["dst"]].reset(objs.at(cmd["src"])->derivative((int)cmd["k"]));
                hx::Out r;
                objs.at(cmd["dst"])->info(r);
                o.raw("out", r.done());
            }
            else if (op == "destroy")
                objs.erase((long)cmd["obj"]);
            else if (op == "sethint")
                hints[(long)cmd["cell"]] = (int)cmd["value"];
            else if (op == "note")
            {
            }
            else
            {
                hx::Out r;
                objs.at(cmd["obj"])->query(op, cmd, r, hints);
                o.raw("out", r.done());
            }
        }
        catch (const std::exception &ex)
        {
            o.str("exception", ex.what());
        }
        hx::trace().emit(o.done());
    }
    hx::trace().flush();
    return 0;
}
