// Script replayer for the time maps (QuadInvTimeMap, IdentityTimeMap).  usage: timemap_replay <script> <trace>
#include "hx.hpp"
#include "SplineTrajectory.hpp"
#include "SplineOptimizer.hpp"

using namespace SplineTrajectory;

template <typename Map>
static void run(const Map &m, const std::string &op, const hx::json &cmd, hx::Out &o)
{
    if (op == "totime")
    {
        std::vector<double> r;
        for (double tau : hx::vec(cmd["taus"]))
            r.push_back(m.toTime(tau));
        o.v("T", r);
    }
    else if (op == "totau")
    {
        std::vector<double> r, back;
        for (double T : hx::vec(cmd["Ts"]))
        {
            r.push_back(m.toTau(T));
            back.push_back(m.toTime(r.back()));
        }
        o.v("tau", r).v("T_again", back);
    }
    else if (op == "tau_roundtrip")
    {
        std::vector<double> T, r;
        for (double tau : hx::vec(cmd["taus"]))
        {
            T.push_back(m.toTime(tau));
            r.push_back(m.toTau(T.back()));
        }
        o.v("T", T).v("tau_again", r);
    }
    else if (op == "backward")
    {
        const std::vector<double> taus = hx::vec(cmd["taus"]), gs = hx::vec(cmd["gs"]);
        std::vector<double> T, r;
        for (size_t i = 0; i < taus.size(); ++i)
        {
            T.push_back(m.toTime(taus[i]));
            r.push_back(m.backward(taus[i], T.back(), gs[i]));
        }
        o.v("T", T).v("grad", r);
    }
    else
        o.str("error", "unknown op");
}

int main(int argc, char **argv)
{
    if (argc < 3)
        return 2;
    std::set_terminate(hx::on_terminate);
    std::ifstream in(argv[1]);
    hx::trace().open(argv[2]);
    std::string line;
    QuadInvTimeMap quad;
    IdentityTimeMap ident;
    while (std::getline(in, line))
    {
        if (line.empty())
            continue;
        hx::json cmd = hx::json::parse(line);
        const std::string op = cmd["op"];
        hx::Out o;
        o.str("e", op);
        for (auto it = cmd.begin(); it != cmd.end(); ++it)
            if (it.key() != "op")
                o.raw(it.key().c_str(), it.value().dump());
        if (op != "reset" && op != "note")
        {
            hx::Out r;
            if (cmd.value("map", "quad") == std::string("identity"))
                run(ident, op, cmd, r);
            else
                run(quad, op, cmd, r);
            o.raw("out", r.done());
        }
        hx::trace().emit(o.done());
    }
    hx::trace().flush();
    return 0;
}
