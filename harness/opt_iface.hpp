// Type-erased handle on SplineOptimizer<DIM, Spline, TimeMap, SpatialMap> for the script replayer,
// the user-defined (stateful) maps, the executors and the polynomial cost-functor family.
#pragma once
#include "hx.hpp"
#include <thread>
#include <mutex>
#include <atomic>
#include <functional>

// ---------------------------------------------------------------- user-defined maps (stateful on purpose: sharing must be visible)
// T = scale * (tau^2 + 1): positive for every tau, rational in tau (exact oracle), dT/dtau = 2 scale tau
struct SqTimeMap
{
    double scale = 1.0;
    double toTime(double tau) const { return scale * (tau * tau + 1.0); }
    double toTau(double T) const { return std::sqrt(T / scale - 1.0); }
    double backward(double tau, double /*T*/, double gradT) const { return gradT * (2.0 * scale * tau); }
};

// p_j = xi_j for j < dof(index);  p_j = sum_k M(j,k) xi_k + gain (index+1) for j >= dof(index);  M(j,k) = ((j + 2k) mod 3 - 1) / 2
// dof(index) = 1 if index == pin, else max(1, DIM - 1 - index mod 2)  (fewer unconstrained than physical coordinates whenever DIM >= 2);
// pin = -1 (none) for the default-constructed map: two user maps can differ in the dof of a single point
template <int DIM>
struct LiftMap
{
    double gain = 0.25;
    int pin = -1;
    int dofOf(int index) const { return index == pin ? 1 : std::max(1, DIM - 1 - (index % 2)); }
    static double M(int j, int k) { return (double)(((j + 2 * k) % 3) - 1) * 0.5; }
    int getUnconstrainedDim(int index) const { return dofOf(index); }
    Eigen::VectorXd toPhysical(const Eigen::VectorXd &xi, int index) const
    {
        const int dof = dofOf(index);
        Eigen::VectorXd p(DIM);
        for (int j = 0; j < DIM; ++j)
        {
            if (j < dof)
                p(j) = xi(j);
            else
            {
                double s = gain * (double)(index + 1);
                for (int k = 0; k < dof; ++k)
                    s += M(j, k) * xi(k);
                p(j) = s;
            }
        }
        return p;
    }
    Eigen::VectorXd toUnconstrained(const Eigen::VectorXd &p, int index) const
    {
        return p.head(dofOf(index));
    }
    Eigen::VectorXd backwardGrad(const Eigen::VectorXd & /*xi*/, const Eigen::VectorXd &grad_p, int index) const
    {
        const int dof = dofOf(index);
        Eigen::VectorXd g(dof);
        for (int k = 0; k < dof; ++k)
        {
            double s = grad_p(k);
            for (int j = dof; j < DIM; ++j)
                s += M(j, k) * grad_p(j);
            g(k) = s;
        }
        return g;
    }
};

// ---------------------------------------------------------------- executors
struct PermExecutor
{
    std::vector<int> perm; // order in which segment indices are processed
    template <typename F>
    void operator()(int start, int end, F &&f) const
    {
        if ((int)perm.size() == end - start)
            for (int i : perm)
                f(start + i);
        else
            for (int i = end - 1; i >= start; --i)
                f(i);
    }
};

struct ThreadExecutor
{
    std::vector<int> owner; // owner[i] = thread that processes segment i
    int nthreads = 2;
    template <typename F>
    void operator()(int start, int end, F &&f) const
    {
        std::vector<std::thread> th;
        for (int t = 0; t < nthreads; ++t)
            th.emplace_back([&, t]()
                            {
                for (int i = start; i < end; ++i)
                {
                    const int o = (i - start) < (int)owner.size() ? owner[i - start] : (i % nthreads);
                    if (o % nthreads == t)
                        f(i);
                } });
        for (auto &x : th)
            x.join();
    }
};

// ---------------------------------------------------------------- cost functors (polynomials with small parameters; optional wrong "claimed" gradients)
struct CostParams
{
    // time cost: sum a T_i + b T_i^2 + c T_i T_(i+1)
    double ta = 0, tb = 0, tc = 0;
    // waypoint cost: sum_i (i+1) w sum_c (q_ic - c0)^2
    double ww = 0, wc0 = 0;
    // running cost: ap|p|^2 + av|v|^2 + aa|a|^2 + aj|j|^2 + as|s|^2 + beta p.v + gamma tg p_0 + delta (i+1) |v|^2 + eps tg^2 + zeta t a_0
    double ap = 0, av = 0, aa = 0, aj = 0, as = 0, beta = 0, gamma = 0, delta = 0, eps = 0;
    // lies: a wrong claimed partial derivative (C19); which: 0 none, 1 time, 2 waypoint, 3 running gp, 4 running gv, 5 running gt, 6 running ga
    int lie_which = 0, lie_i = 0, lie_c = 0;
    double lie = 0;
    static CostParams from(const hx::json &j)
    {
        CostParams p;
        auto g = [&](const char *k, double &d)
        { if (j.contains(k)) d = hx::num(j[k]); };
        g("ta", p.ta); g("tb", p.tb); g("tc", p.tc); g("ww", p.ww); g("wc0", p.wc0);
        g("ap", p.ap); g("av", p.av); g("aa", p.aa); g("aj", p.aj); g("as", p.as);
        g("beta", p.beta); g("gamma", p.gamma); g("delta", p.delta); g("eps", p.eps);
        g("lie", p.lie);
        if (j.contains("lie_which")) p.lie_which = j["lie_which"];
        if (j.contains("lie_i")) p.lie_i = j["lie_i"];
        if (j.contains("lie_c")) p.lie_c = j["lie_c"];
        return p;
    }
};

struct TimeCost
{
    CostParams P;
    double operator()(const std::vector<double> &Ts, Eigen::VectorXd &grad) const
    {
        const int n = (int)Ts.size();
        double c = 0;
        for (int i = 0; i < n; ++i)
        {
            c += P.ta * Ts[i] + P.tb * Ts[i] * Ts[i];
            double g = P.ta + 2.0 * P.tb * Ts[i];
            if (i + 1 < n)
            {
                c += P.tc * Ts[i] * Ts[i + 1];
                g += P.tc * Ts[i + 1];
            }
            if (i > 0)
                g += P.tc * Ts[i - 1];
            grad(i) = g;
        }
        if (P.lie_which == 1 && P.lie_i < n)
            grad(P.lie_i) += P.lie;
        return c;
    }
};

struct WpCost
{
    CostParams P;
    template <typename W, typename G>
    double operator()(const W &q, G &grad) const
    {
        double c = 0;
        for (int i = 0; i < q.rows(); ++i)
            for (int k = 0; k < q.cols(); ++k)
            {
                const double d = q(i, k) - P.wc0;
                c += (double)(i + 1) * P.ww * d * d;
                grad(i, k) = 2.0 * (double)(i + 1) * P.ww * d;
            }
        if (P.lie_which == 2 && P.lie_i < q.rows() && P.lie_c < q.cols())
            grad(P.lie_i, P.lie_c) += P.lie;
        return c;
    }
};

struct Sample
{
    int i;
    double t, tg;
    std::vector<double> p, v, a, j, s;
};

struct Recorder
{
    std::mutex mu;
    std::vector<Sample> samples;
};

template <typename Vec>
struct RunCost
{
    CostParams P;
    Recorder *rec = nullptr;
    double operator()(double t, double tg, int i, const Vec &p, const Vec &v, const Vec &a, const Vec &j, const Vec &s,
                      Vec &gp, Vec &gv, Vec &ga, Vec &gj, Vec &gs, double &gt) const
    {
        if (rec)
        {
            Sample sm;
            sm.i = i;
            sm.t = t;
            sm.tg = tg;
            for (int c = 0; c < p.size(); ++c)
            {
                sm.p.push_back(p(c));
                sm.v.push_back(v(c));
                sm.a.push_back(a(c));
                sm.j.push_back(j(c));
                sm.s.push_back(s(c));
            }
            std::lock_guard<std::mutex> lk(rec->mu);
            rec->samples.push_back(sm);
        }
        const double w = (double)(i + 1);
        double c = P.ap * p.squaredNorm() + P.av * v.squaredNorm() + P.aa * a.squaredNorm() + P.aj * j.squaredNorm() + P.as * s.squaredNorm() +
                   P.beta * p.dot(v) + P.gamma * tg * p(0) + P.delta * w * v.squaredNorm() + P.eps * tg * tg;
        gp = 2.0 * P.ap * p + P.beta * v;
        gp(0) += P.gamma * tg;
        gv = 2.0 * P.av * v + P.beta * p + 2.0 * P.delta * w * v;
        ga = 2.0 * P.aa * a;
        gj = 2.0 * P.aj * j;
        gs = 2.0 * P.as * s;
        gt = P.gamma * p(0) + 2.0 * P.eps * tg;
        const int lc = std::min<int>(P.lie_c, (int)p.size() - 1);
        if (P.lie_which == 3 && P.lie_i == i)
            gp(lc) += P.lie;
        if (P.lie_which == 4 && P.lie_i == i)
            gv(lc) += P.lie;
        if (P.lie_which == 5 && P.lie_i == i)
            gt += P.lie;
        if (P.lie_which == 6 && P.lie_i == i)
            ga(lc) += P.lie;
        return c;
    }
};

// ---------------------------------------------------------------- the handle
struct Registry; // user maps and workspaces live outside the optimizers (referenced, not owned)

struct IOpt
{
    virtual ~IOpt() {}
    virtual int order() const = 0;
    virtual int dim() const = 0;
    virtual void call(const std::string &op, const hx::json &cmd, hx::Out &o, Registry &reg) = 0;
    virtual IOpt *copy_construct() const = 0;          // SplineOptimizer(const SplineOptimizer&)
    virtual void assign_from(const IOpt *src) = 0;     // operator=
    virtual void destroy_poison() = 0;                 // run the destructor and overwrite the storage with 0xA5
};

struct Registry
{
    std::map<long, std::shared_ptr<SqTimeMap>> tmaps;
    // a user spatial map id stands for one LiftMap<DIM> per dimension that uses it (created on first use, all sharing the gain)
    std::map<long, double> smap_gain;
    std::map<long, int> smap_pin;
    std::map<std::pair<long, int>, std::shared_ptr<void>> smaps;
    std::map<std::pair<long, int>, std::function<void(double)>> smap_setters;
    std::map<long, std::shared_ptr<void>> wss;       // OBox::Workspace, typed by the optimizer family that created it
    std::map<long, std::string> ws_family;
};

IOpt *make_opt(int order, int dim, const std::string &tm, const std::string &sm);
