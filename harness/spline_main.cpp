// Script replayer for the spline family.  usage: spline_replay <script.ndjson> <trace.ndjson>
// Every script line is one call on a real object; the trace line echoes the arguments and adds the exact result bits.
#include "spline_iface.hpp"

static ISpline *make(int order, int dim)
{
#define SP_CASE(O, D) \
    if (order == O && dim == D) \
        return make_spline_##O##_##D();
    SP_FOR_ALL(SP_CASE)
#undef SP_CASE
    return nullptr;
}

int main(int argc, char **argv)
{
    if (argc < 3)
    {
        std::fprintf(stderr, "usage: %s script.ndjson trace.ndjson\n", argv[0]);
        return 2;
    }
    std::set_terminate(hx::on_terminate);
    std::signal(SIGABRT, hx::on_signal);
    std::signal(SIGSEGV, hx::on_signal);
    std::ifstream in(argv[1]);
    hx::trace().open(argv[2]);
    std::map<long, std::unique_ptr<ISpline>> objs;
    std::string line;
    long ln = 0;
    while (std::getline(in, line))
    {
        ++ln;
        if (line.empty())
            continue;
        hx::json cmd = hx::json::parse(line);
        const std::string op = cmd["op"];
        hx::Out o;
        o.str("e", op);
        // echo every argument verbatim so that the trace is self-contained
        for (auto it = cmd.begin(); it != cmd.end(); ++it)
            if (it.key() != "op")
                o.raw(it.key().c_str(), it.value().dump());
        try
        {
            if (op == "reset")
            {
                objs.clear();
            }
            else if (op == "build")
            {
                const long id = cmd["obj"];
                const std::string how = cmd["how"];
                if (how.rfind("ctor", 0) == 0 || !objs.count(id))
                    objs[id].reset(make(cmd["order"], cmd["dim"]));
                hx::Out r;
                objs[id]->build(cmd, r);
                o.raw("out", r.done());
            }
            else if (op == "copy")
            {
                objs[cmd["dst"]].reset(objs.at(cmd["src"])->clone());
            }
            else if (op == "assign")
            {
                const long dst = cmd["dst"], src = cmd["src"];
                if (!objs.count(dst))
                    objs[dst].reset(make(objs.at(src)->order(), objs.at(src)->dim()));
                objs[dst]->assign(objs.at(src).get());
            }
            else if (op == "destroy")
            {
                objs.erase((long)cmd["obj"]);
            }
            else if (op == "note")
            {
                // harness directive: no library call (comparison requests judged by the specification)
            }
            else
            {
                hx::Out r;
                objs.at(cmd["obj"])->query(op, cmd, r);
                o.raw("out", r.done());
            }
        }
        catch (const std::exception &ex)
        {
            o.str("exception", ex.what());
        }
        hx::trace().emit(o.done());
    }
    hx::trace().flush();
    return 0;
}
