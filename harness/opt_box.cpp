// One translation unit per (OP_ORDER, OP_DIM): wraps SplineOptimizer<DIM, Spline, TimeMap, SpatialMap> for the four
// combinations of {default QuadInvTimeMap, user SqTimeMap} x {IdentitySpatialMap, user LiftMap} behind IOpt.
#include "opt_iface.hpp"
#include "SplineTrajectory.hpp"
#include "SplineOptimizer.hpp"
#include <cstring>

using namespace SplineTrajectory;

template <int ORDER, int DIM>
struct PickS;
template <int DIM>
struct PickS<3, DIM>
{
    using type = CubicSplineND<DIM>;
};
template <int DIM>
struct PickS<5, DIM>
{
    using type = QuinticSplineND<DIM>;
};
template <int DIM>
struct PickS<7, DIM>
{
    using type = SepticSplineND<DIM>;
};

static std::map<const void *, long> &addr_ids()
{
    static std::map<const void *, long> m;
    return m;
}
static long addr_id(const void *p)
{
    if (!p)
        return 0;
    auto &m = addr_ids();
    auto it = m.find(p);
    if (it != m.end())
        return it->second;
    const long id = (long)m.size() + 1;
    m[p] = id;
    return id;
}

template <int ORDER, int DIM, typename TM, typename SM>
struct OBox : IOpt
{
    using S = typename PickS<ORDER, DIM>::type;
    using Opt = SplineOptimizer<DIM, S, TM, SM>;
    using WS = typename Opt::Workspace;
    using Mat = typename S::MatrixType;
    using Vec = typename S::VectorType;
    using BC = BoundaryConditions<DIM>;
    static constexpr bool kUserT = std::is_same<TM, SqTimeMap>::value;
    static constexpr bool kUserS = !std::is_same<SM, IdentitySpatialMap<DIM>>::value;

    void *buf = nullptr;
    Opt *opt = nullptr;
    Eigen::VectorXd pgrad;      // a gradient vector owned by the caller and kept between calls
    std::string family;

    OBox()
    {
        family = std::to_string(ORDER) + "/" + std::to_string(DIM) + "/" + (kUserT ? "sq" : "quad") + "/" + (kUserS ? "lift" : "id");
    }
    void alloc()
    {
        buf = std::aligned_alloc(64, ((sizeof(Opt) + 63) / 64) * 64);
    }
    void construct_default()
    {
        alloc();
        opt = new (buf) Opt();
    }
    int order() const override { return ORDER; }
    int dim() const override { return DIM; }

    IOpt *copy_construct() const override
    {
        auto *b = new OBox<ORDER, DIM, TM, SM>();
        b->alloc();
        b->opt = new (b->buf) Opt(*opt);
        return b;
    }
    void assign_from(const IOpt *src) override
    {
        const auto *o = dynamic_cast<const OBox<ORDER, DIM, TM, SM> *>(src);
        if (o)
            *opt = *o->opt;
    }
    void destroy_poison() override
    {
        if (!opt)
            return;
        opt->~Opt();
#ifdef OPT_FREE_ON_DESTROY
        std::free(buf); // sanitizer builds: a dangling pointer into the object becomes a reported use-after-free
#else
        std::memset(buf, 0xA5, sizeof(Opt)); // plain builds: a dangling pointer into the object reads garbage deterministically
#endif
        opt = nullptr;
        buf = nullptr;
    }
    ~OBox() override
    {
        if (opt)
        {
            opt->~Opt();
            std::free(buf);
        }
    }

    static Vec v(const hx::json &j)
    {
        Vec r;
        for (int c = 0; c < DIM; ++c)
            r(c) = hx::num(j[c]);
        return r;
    }
    static Mat m(const hx::json &j)
    {
        Mat r(j.size(), DIM);
        for (size_t i = 0; i < j.size(); ++i)
            for (int c = 0; c < DIM; ++c)
                r(i, c) = hx::num(j[i][c]);
        return r;
    }
    static BC bc(const hx::json &b)
    {
        BC r;
        r.start_velocity = v(b["sv"]);
        r.start_acceleration = v(b["sa"]);
        r.start_jerk = v(b["sj"]);
        r.end_velocity = v(b["ev"]);
        r.end_acceleration = v(b["ea"]);
        r.end_jerk = v(b["ej"]);
        return r;
    }
    static std::string bcstr(const BC &b)
    {
        hx::Out o;
        o.v("sv", b.start_velocity).v("sa", b.start_acceleration).v("sj", b.start_jerk);
        o.v("ev", b.end_velocity).v("ea", b.end_acceleration).v("ej", b.end_jerk);
        return o.done();
    }
    static std::string splstr(const S *s)
    {
        hx::Out o;
        if (!s)
        {
            o.b("null", true);
            return o.done();
        }
        o.b("null", false).i("addr", addr_id(s)).b("init", s->isInitialized());
        if (s->isInitialized())
        {
            o.v("tsegs", s->getTimeSegments()).m("pts", s->getSpacePoints()).raw("gbc", bcstr(s->getBoundaryConditions()));
            o.d("start", s->getStartTime()).m("coef", s->getTrajectory().getCoefficients());
        }
        return o.done();
    }
    void verdict(hx::Out &o) const
    {
        // the message state is read BEFORE checkValidity(), which itself stores a message when the state is invalid
        const bool had_error = !opt->getLastError().empty();
        std::string msg = "unset";
        const bool cv = opt->checkValidity(&msg);
        o.b("is_valid", opt->isValid()).b("as_bool", static_cast<bool>(*opt)).b("has_error", had_error);
        o.b("check_validity", cv).b("check_msg_empty", msg.empty()).b("check_validity_nomsg", opt->checkValidity());
        o.b("has_error_after", !opt->getLastError().empty());
    }
    WS *ws_of(const hx::json &cmd, Registry &reg)
    {
        if (!cmd.contains("ws") || cmd["ws"].is_string() || (long)cmd["ws"] == 0)
            return nullptr; // 0: the built-in workspace
        const long id = cmd["ws"];
        if (!reg.wss.count(id) || reg.ws_family[id] != family)
        {
            reg.wss[id] = std::shared_ptr<void>(new WS(), [](void *p)
                                                { delete static_cast<WS *>(p); });
            reg.ws_family[id] = family;
        }
        return static_cast<WS *>(reg.wss[id].get());
    }

    template <typename Exec>
    double do_eval(const Eigen::VectorXd &x, Eigen::VectorXd &g, const CostParams &P, Recorder *rec, int overload, WS *ws, const Exec &ex)
    {
        TimeCost tc{P};
        WpCost wc{P};
        RunCost<Vec> rc{P, rec};
        if (overload == 2)
            return opt->evaluate(x, g, tc, rc, ws, ex);
        return opt->evaluate(x, g, tc, wc, rc, ws, ex);
    }

    void call(const std::string &op, const hx::json &cmd, hx::Out &o, Registry &reg) override
    {
        if (op == "opt_new")
        {
            construct_default();
            o.str("family", family);
            verdict(o);
        }
        else if (op == "set_init")
        {
            const Mat P = m(cmd["P"]);
            const BC b = bc(cmd["bc"]);
            bool r;
            if (cmd["how"] == "durs")
                r = opt->setInitState(hx::vec(cmd["T"]), P, hx::num(cmd["t0"]), b);
            else
                r = opt->setInitState(hx::vec(cmd["tp"]), P, b);
            o.b("ret", r);
            verdict(o);
        }
        else if (op == "verdict")
            verdict(o);
        else if (op == "set_flags")
        {
            OptimizationFlags f;
            const auto &a = cmd["flags"];
            f.start_p = a[0]; f.start_v = a[1]; f.start_a = a[2]; f.start_j = a[3];
            f.end_p = a[4]; f.end_v = a[5]; f.end_a = a[6]; f.end_j = a[7];
            opt->setOptimizationFlags(f);
        }
        else if (op == "set_energy")
            opt->setEnergyWeights(hx::num(cmd["rho"]));
        else if (op == "set_steps")
            opt->setIntegralNumSteps((int)cmd["K"]);
        else if (op == "set_tmap")
        {
            if constexpr (kUserT)
            {
                if (cmd["map"].is_null() || (long)cmd["map"] == 0)
                    opt->setTimeMap(nullptr);
                else
                    opt->setTimeMap(reg.tmaps.at((long)cmd["map"]).get());
            }
            else
                opt->setTimeMap(nullptr);
        }
        else if (op == "set_smap")
        {
            if constexpr (kUserS)
            {
                if (cmd["map"].is_null() || (long)cmd["map"] == 0)
                    opt->setSpatialMap(nullptr);
                else
                {
                    const long id = cmd["map"];
                    const auto key = std::make_pair(id, DIM);
                    if (!reg.smaps.count(key))
                    {
                        auto *mp = new SM();
                        mp->gain = reg.smap_gain.at(id);
                        mp->pin = reg.smap_pin.count(id) ? reg.smap_pin.at(id) : -1;
                        reg.smaps[key] = std::shared_ptr<void>(mp, [](void *p)
                                                               { delete static_cast<SM *>(p); });
                        reg.smap_setters[key] = [mp](double g)
                        { mp->gain = g; };
                    }
                    opt->setSpatialMap(static_cast<const SM *>(reg.smaps.at(key).get()));
                }
            }
            else
                opt->setSpatialMap(nullptr);
        }
        else if (op == "get_dim")
            o.i("dim", opt->getDimension());
        else if (op == "init_guess")
        {
            o.i("dim", opt->getDimension());
            o.v("x", opt->generateInitialGuess());
        }
        else if (op == "evaluate")
        {
            const std::vector<double> xv = hx::vec(cmd["x"]);
            Eigen::VectorXd x = Eigen::Map<const Eigen::VectorXd>(xv.data(), xv.size());
            // the caller's gradient vector: fresh and empty (default), the one the last call on this handle left behind ("reuse"), or
            // pre-sized and filled with garbage ("dirty": right size, "big": too long)
            const std::string gout = cmd.value("gout", "fresh");
            Eigen::VectorXd gfresh;
            if (gout == "dirty")
                pgrad = Eigen::VectorXd::Constant(x.size(), 7.25);
            else if (gout == "big")
                pgrad = Eigen::VectorXd::Constant(x.size() + 3, -7.25);
            Eigen::VectorXd &g = (gout == "fresh") ? gfresh : pgrad;
            const CostParams P = CostParams::from(cmd.contains("costs") ? cmd["costs"] : hx::json::object());
            Recorder rec;
            const bool dorec = cmd.value("rec", false);
            const int overload = cmd.value("overload", 3);
            WS *ws = ws_of(cmd, reg);
            double c;
            const std::string ek = cmd.contains("exec") ? cmd["exec"].value("kind", "serial") : std::string("serial");
            if (ek == "perm")
            {
                PermExecutor ex;
                for (int i : cmd["exec"]["perm"])
                    ex.perm.push_back(i);
                c = do_eval(x, g, P, dorec ? &rec : nullptr, overload, ws, ex);
            }
            else if (ek == "threads")
            {
                ThreadExecutor ex;
                ex.nthreads = cmd["exec"]["threads"];
                for (int i : cmd["exec"]["owner"])
                    ex.owner.push_back(i);
                c = do_eval(x, g, P, dorec ? &rec : nullptr, overload, ws, ex);
            }
            else if (ek == "default")
            {
                TimeCost tc{P};
                WpCost wc{P};
                RunCost<Vec> rc{P, dorec ? &rec : nullptr};
                // default arguments: built-in workspace, SerialExecutor
                c = (overload == 2) ? opt->evaluate(x, g, tc, rc) : opt->evaluate(x, g, tc, wc, rc);
            }
            else
                c = do_eval(x, g, P, dorec ? &rec : nullptr, overload, ws, SerialExecutor());
            o.d("cost", c).v("grad", g);
            const S *sp = ws ? &ws->spline : opt->getOptimalSpline();
            o.raw("spline", splstr(sp));
            o.raw("optimal", splstr(opt->getOptimalSpline()));
            if (dorec)
            {
                std::string s = "[";
                for (size_t q = 0; q < rec.samples.size(); ++q)
                {
                    const Sample &sm = rec.samples[q];
                    hx::Out so;
                    so.i("i", sm.i).d("t", sm.t).d("tg", sm.tg).v("p", sm.p).v("v", sm.v).v("a", sm.a).v("j", sm.j).v("s", sm.s);
                    if (q)
                        s += ",";
                    s += so.done();
                }
                o.raw("samples", s + "]");
            }
        }
        else if (op == "evaluate_mt")
        {
            // several threads evaluate concurrently on THIS optimizer, each with its own workspace (the documented thread-safe use)
            const int nt = (int)cmd["xs"].size();
            std::vector<Eigen::VectorXd> xs(nt), gs(nt);
            std::vector<double> costs(nt, 0.0);
            for (int t = 0; t < nt; ++t)
            {
                const std::vector<double> xv = hx::vec(cmd["xs"][t]);
                xs[t] = Eigen::Map<const Eigen::VectorXd>(xv.data(), xv.size());
            }
            const CostParams P = CostParams::from(cmd.contains("costs") ? cmd["costs"] : hx::json::object());
            const int overload = cmd.value("overload", 3);
            const int rounds = cmd.value("rounds", 1);
            std::vector<std::unique_ptr<WS>> wss;
            for (int t = 0; t < nt; ++t)
                wss.emplace_back(new WS());
            std::atomic<int> ready{0};
            std::vector<std::thread> th;
            const Opt *copt = opt;
            for (int t = 0; t < nt; ++t)
                th.emplace_back([&, t]()
                                {
                    ready.fetch_add(1);
                    while (ready.load() < nt) { }       // start together
                    for (int q = 0; q < rounds; ++q)
                    {
                        TimeCost tc{P};
                        WpCost wc{P};
                        RunCost<Vec> rc{P, nullptr};
                        costs[t] = (overload == 2) ? copt->evaluate(xs[t], gs[t], tc, rc, wss[t].get(), SerialExecutor())
                                                   : copt->evaluate(xs[t], gs[t], tc, wc, rc, wss[t].get(), SerialExecutor());
                    } });
            for (auto &x : th)
                x.join();
            std::string r = "[";
            for (int t = 0; t < nt; ++t)
            {
                hx::Out so;
                so.d("cost", costs[t]).v("grad", gs[t]);
                if (t)
                    r += ",";
                r += so.done();
            }
            o.raw("results", r + "]");
        }
        else if (op == "check_grad")
        {
            const std::vector<double> xv = hx::vec(cmd["x"]);
            Eigen::VectorXd x = Eigen::Map<const Eigen::VectorXd>(xv.data(), xv.size());
            const CostParams P = CostParams::from(cmd.contains("costs") ? cmd["costs"] : hx::json::object());
            TimeCost tc{P};
            WpCost wc{P};
            RunCost<Vec> rc{P, nullptr};
            WS *ws = ws_of(cmd, reg);
            const int overload = cmd.value("overload", 3);
            typename Opt::GradientCheckResult r;
            if (cmd.contains("eps"))
            {
                const double eps = hx::num(cmd["eps"]), tol = hx::num(cmd["tol"]);
                r = (overload == 2) ? opt->checkGradients(x, tc, rc, ws, eps, tol) : opt->checkGradients(x, tc, wc, rc, ws, eps, tol);
            }
            else
                r = (overload == 2) ? opt->checkGradients(x, tc, rc, ws) : opt->checkGradients(x, tc, wc, rc, ws);
            o.b("valid", r.valid).d("error_norm", r.error_norm).d("rel_error", r.rel_error).v("analytical", r.analytical).v("numerical", r.numerical);
            o.b("report_passed", r.makeReport().find("PASSED") != std::string::npos);
            const S *sp = ws ? &ws->spline : opt->getOptimalSpline();
            o.raw("spline", splstr(sp));
        }
        else if (op == "get_optimal")
            o.raw("optimal", splstr(opt->getOptimalSpline()));
        else
            o.str("error", "unknown op");
    }
};

#define OP_CAT3(a, b, c) make_opt_##a##_##b##_##c
#define OP_CAT(a, b, c) OP_CAT3(a, b, c)
// OP_VARIANT: 0 = default maps, 1 = default time map + LiftMap, 2 = SqTimeMap + identity, 3 = both user maps
#if OP_VARIANT == 0
IOpt *OP_CAT(OP_ORDER, OP_DIM, qi)()
{
    return new OBox<OP_ORDER, OP_DIM, QuadInvTimeMap, IdentitySpatialMap<OP_DIM>>();
}
#elif OP_VARIANT == 1
IOpt *OP_CAT(OP_ORDER, OP_DIM, ql)()
{
    return new OBox<OP_ORDER, OP_DIM, QuadInvTimeMap, LiftMap<OP_DIM>>();
}
#elif OP_VARIANT == 2
IOpt *OP_CAT(OP_ORDER, OP_DIM, si)()
{
    return new OBox<OP_ORDER, OP_DIM, SqTimeMap, IdentitySpatialMap<OP_DIM>>();
}
#else
IOpt *OP_CAT(OP_ORDER, OP_DIM, sl)()
{
    return new OBox<OP_ORDER, OP_DIM, SqTimeMap, LiftMap<OP_DIM>>();
}
#endif
