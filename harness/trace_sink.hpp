// Force-included (-include) into the repository's OWN test programs, built with -DSPLINETRAJECTORY_VERIF:
// installs an observer that records every spline (re)build the test performs as a "build" event of the
// TraceSpline format (inputs read back through the public accessors + exact result bits), so that executions of
// programs the verification did not write are validated against the specification as well.
// Output file: $VERIF_TRACE_OUT.  Rate limit: the first VERIF_TRACE_FIRST (default 40) builds per (order, dim), then every
// VERIF_TRACE_EVERY-th (default 2000) - the benchmarks rebuild the same spline thousands of times.
#pragma once
#include "SplineTrajectory.hpp"
#include "hx.hpp"

namespace verif_sink
{
    using namespace SplineTrajectory;

    struct State
    {
        FILE *f = nullptr;
        std::map<std::pair<int, int>, long> count;
        long first = 40, every = 2000, nobj = 0;
    };
    inline State &st()
    {
        static State s;
        return s;
    }

    template <typename S, int ORDER, int DIM>
    void emit(const S *s)
    {
        hx::Out o;
        o.str("e", "build").i("obj", 1).i("order", ORDER).i("dim", DIM).str("how", "ctor_durs").i("bcar", 9);
        o.v("T", s->getTimeSegments()).d("t0", s->getStartTime()).m("P", s->getSpacePoints());
        const auto &b = s->getBoundaryConditions();
        hx::Out bo;
        bo.v("sv", b.start_velocity).v("sa", b.start_acceleration).v("sj", b.start_jerk);
        bo.v("ev", b.end_velocity).v("ea", b.end_acceleration).v("ej", b.end_jerk);
        o.raw("bc", bo.done());
        hx::Out r;
        r.b("init", s->isInitialized()).i("nseg", s->getNumSegments()).i("npts", (long)s->getNumPoints()).i("gdim", s->getDimension());
        r.v("tsegs", s->getTimeSegments()).v("cum", s->getCumulativeTimes());
        r.d("start", s->getStartTime()).d("end", s->getEndTime()).d("dur", s->getDuration());
        r.m("coef", s->getTrajectory().getCoefficients()).v("bp", s->getTrajectory().getBreakpoints());
        r.i("tnc", s->getTrajectory().getNumCoeffs()).i("tnseg", s->getTrajectory().getNumSegments()).b("tinit", s->getTrajectory().isInitialized());
        r.m("pts", s->getSpacePoints()).raw("gbc", bo.done());
        o.raw("out", r.done());
        std::fputs("{\"e\":\"reset\"}\n", st().f);
        std::fputs(o.done().c_str(), st().f);
        std::fputc('\n', st().f);
        // a read-only query on the freshly built object: its energy (judged against the exact integral)
        hx::Out q;
        q.str("e", "energy").i("obj", 1);
        hx::Out qo;
        qo.d("val", s->getEnergy());
        q.raw("out", qo.done());
        std::fputs(q.done().c_str(), st().f);
        std::fputc('\n', st().f);
        std::fflush(st().f);
    }

    template <int ORDER, int DIM>
    void dispatch(const void *p)
    {
        if (ORDER == 3)
            emit<CubicSplineND<DIM>, 3, DIM>(static_cast<const CubicSplineND<DIM> *>(p));
        else if (ORDER == 5)
            emit<QuinticSplineND<DIM>, 5, DIM>(static_cast<const QuinticSplineND<DIM> *>(p));
        else
            emit<SepticSplineND<DIM>, 7, DIM>(static_cast<const SepticSplineND<DIM> *>(p));
    }

    inline void observer(int order, int dim, const void *p)
    {
        State &s = st();
        if (!s.f)
            return;
        long &c = s.count[{order, dim}];
        ++c;
        if (!(c <= s.first || c % s.every == 0))
            return;
#define VS_CASE(O, D) \
    if (order == O && dim == D) \
        return dispatch<O, D>(p);
#define VS_DIMS(O) VS_CASE(O, 1) VS_CASE(O, 2) VS_CASE(O, 3) VS_CASE(O, 4) VS_CASE(O, 5) VS_CASE(O, 6) VS_CASE(O, 7) VS_CASE(O, 8) VS_CASE(O, 9) VS_CASE(O, 10)
        VS_DIMS(3)
        VS_DIMS(5)
        VS_DIMS(7)
    }

    struct Installer
    {
        Installer()
        {
            const char *out = std::getenv("VERIF_TRACE_OUT");
            if (!out)
                return;
            st().f = std::fopen(out, "w");
            if (const char *a = std::getenv("VERIF_TRACE_FIRST"))
                st().first = std::atol(a);
            if (const char *a = std::getenv("VERIF_TRACE_EVERY"))
                st().every = std::atol(a);
            SplineTrajectory::verif::buildObserver() = &observer;
        }
    };
    static Installer installer;
}
