// Type-erased handle on CubicSplineND / QuinticSplineND / SepticSplineND<DIM> for the script replayer.
#pragma once
#include "hx.hpp"

struct ISpline
{
    virtual ~ISpline() {}
    virtual int order() const = 0;
    virtual int dim() const = 0;
    virtual void build(const hx::json &cmd, hx::Out &o) = 0;
    virtual void query(const std::string &kind, const hx::json &cmd, hx::Out &o) = 0;
    virtual ISpline *clone() const = 0;            // copy construction
    virtual void assign(const ISpline *src) = 0;   // copy assignment (same order and dim)
};

#define SP_FOR_ALL(X) \
    X(3, 1) X(3, 2) X(3, 3) X(3, 4) X(3, 5) X(3, 6) X(3, 7) X(3, 8) X(3, 9) X(3, 10) \
    X(5, 1) X(5, 2) X(5, 3) X(5, 4) X(5, 5) X(5, 6) X(5, 7) X(5, 8) X(5, 9) X(5, 10) \
    X(7, 1) X(7, 2) X(7, 3) X(7, 4) X(7, 5) X(7, 6) X(7, 7) X(7, 8) X(7, 9) X(7, 10)

#define SP_DECL(O, D) ISpline *make_spline_##O##_##D();
SP_FOR_ALL(SP_DECL)
#undef SP_DECL
