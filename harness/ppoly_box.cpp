// One translation unit per (PP_DIM, PP_ORD): wraps PPolyND<DIM, ORDER> behind IPPoly.  PP_ORD = -1 means Eigen::Dynamic.
#include "ppoly_iface.hpp"
#include "SplineTrajectory.hpp"

using namespace SplineTrajectory;

template <int DIM, int ORD>
struct PBox : IPPoly
{
    using PP = PPolyND<DIM, ORD>;
    using Mat = typename PP::MatrixType;
    using Vec = typename PP::VectorType;
    PP pp;

    int dim() const override { return DIM; }
    int ord() const override { return ORD; }

    static Mat m(const hx::json &j)
    {
        Mat r(j.size(), DIM);
        for (size_t i = 0; i < j.size(); ++i)
            for (int c = 0; c < DIM; ++c)
                r(i, c) = hx::num(j[i][c]);
        return r;
    }
    void construct(const hx::json &cmd) override
    {
        pp = PP(hx::vec(cmd["bp"]), m(cmd["C"]), (int)cmd["nc"]);
    }
    void update(const hx::json &cmd) override
    {
        pp.update(hx::vec(cmd["bp"]), m(cmd["C"]), (int)cmd["nc"]);
    }
    void factory(const hx::json &cmd) override
    {
        if (cmd["which"] == "zero")
        {
            if (cmd.contains("nc"))
                pp = PP::zero(hx::vec(cmd["bp"]), (int)cmd["nc"]);
            else
                pp = PP::zero(hx::vec(cmd["bp"]));
        }
        else
        {
            Vec v;
            for (int c = 0; c < DIM; ++c)
                v(c) = hx::num(cmd["val"][c]);
            pp = PP::constant(hx::vec(cmd["bp"]), v);
        }
    }
    IPPoly *clone() const override
    {
        auto *b = new PBox<DIM, ORD>();
        b->pp = PP(pp); // copy construction
        return b;
    }
    void assign(const IPPoly *src) override
    {
        const auto *o = dynamic_cast<const PBox<DIM, ORD> *>(src);
        if (o)
            pp = o->pp;
    }
    IPPoly *derivative(int k) const override
    {
        auto *b = new PBox<DIM, ORD>();
        b->pp = pp.derivative(k);
        return b;
    }
    void info(hx::Out &o) const override
    {
        o.b("init", pp.isInitialized()).i("nseg", pp.getNumSegments()).i("nc", pp.getNumCoeffs()).i("deg", pp.getDegree()).i("gdim", pp.getDimension());
        o.d("start", pp.getStartTime()).d("end", pp.getEndTime()).d("dur", pp.getDuration());
        o.v("bp", pp.getBreakpoints()).m("C", pp.getCoefficients());
    }
    static Deriv en(int k) { return static_cast<Deriv>(k); }

    void query(const std::string &kind, const hx::json &cmd, hx::Out &o, std::map<long, int> &hints) override
    {
        if (kind == "info")
            info(o);
        else if (kind == "eval")
        {
            o.v("val", pp.evaluate(hx::num(cmd["t"]), (int)cmd["k"]));
        }
        else if (kind == "eval_hint")
        {
            const long cell = cmd["cell"];
            int &h = hints[cell];
            o.i("hint_in", h);
            o.v("val", pp.evaluate(hx::num(cmd["t"]), &h, (int)cmd["k"]));
            o.i("hint_out", h);
        }
        else if (kind == "routes")
        {
            // every evaluation route for the same (t, k); `seg` is the piece the script expects (checked by the specification)
            const double t = hx::num(cmd["t"]);
            const int k = cmd["k"];
            const int seg = cmd["seg"];
            o.v("plain", pp.evaluate(t, k));
            int h = cmd["hint"];
            o.v("hinted", pp.evaluate(t, &h, k)).i("hint_out", h);
            o.v("nullhint", pp.evaluate(t, (int *)nullptr, k));
            std::vector<double> ts = {t, t};
            auto bv = pp.evaluate(ts, k);
            o.v("batch0", bv[0]).v("batch1", bv[1]);
            if (k >= 0 && k <= 6)
            {
                o.v("enum_plain", pp.evaluate(t, en(k)));
                int h2 = cmd["hint"];
                o.v("enum_hinted", pp.evaluate(t, &h2, en(k))).i("enum_hint_out", h2);
                o.v("enum_batch", pp.evaluate(ts, en(k))[0]);
            }
            if (seg >= 0 && seg < pp.getNumSegments())
            {
                const double tau = t - pp.getBreakpoints()[seg];
                o.d("tau", tau);
                o.v("seg_idx", pp[seg].evaluate(tau, k));
                o.v("seg_at", pp.at(seg).evaluate(tau, k));
                auto it = pp.begin() + seg;
                o.v("seg_iter", (*it).evaluate(tau, k));
                o.v("seg_arrow", it->evaluate(tau, k));
                if (k >= 0 && k <= 6)
                    o.v("seg_enum", pp[seg].evaluate(tau, en(k)));
            }
            auto dp = pp.derivative(k);
            o.v("dtraj", dp.evaluate(t, 0)).i("dtraj_nc", dp.getNumCoeffs()).i("dtraj_nseg", dp.getNumSegments());
        }
        else if (kind == "batch")
        {
            const std::vector<double> ts = hx::vec(cmd["ts"]);
            const int k = cmd["k"];
            auto bv = pp.evaluate(ts, k);
            std::string a = "[", b = "[";
            for (size_t i = 0; i < ts.size(); ++i)
            {
                if (i)
                {
                    a += ",";
                    b += ",";
                }
                a += hx::Out::vstr(bv[i]);
                b += hx::Out::vstr(pp.evaluate(ts[i], k));
            }
            o.raw("batch", a + "]").raw("pointwise", b + "]");
        }
        else if (kind == "seg_info")
        {
            const int i = cmd["seg"];
            auto s = pp[i];
            o.d("startTime", s.startTime()).d("endTime", s.endTime()).d("duration", s.duration()).i("index", s.index());
            Eigen::MatrixXd cf = s.getCoeffs();
            o.m("coeffs", cf);
            // iterator traversal sees the same segments in order
            long cnt = 0;
            bool same = true;
            for (auto it = pp.begin(); it != pp.end(); ++it, ++cnt)
                same = same && (*it).index() == cnt;
            o.i("iter_count", cnt).b("iter_in_order", same).i("end_minus_begin", (long)(pp.end() - pp.begin()));
        }
        else if (kind == "at")
        {
            const int i = cmd["i"];
            try
            {
                auto s = pp.at(i);
                o.b("threw", false).i("index", s.index());
            }
            catch (const std::out_of_range &)
            {
                o.b("threw", true);
            }
        }
        else if (kind == "tseq")
        {
            if (cmd.contains("start"))
                o.v("seq", pp.generateTimeSequence(hx::num(cmd["start"]), hx::num(cmd["end"]), hx::num(cmd["dt"])));
            else
                o.v("seq", pp.generateTimeSequence(hx::num(cmd["dt"])));
        }
        else if (kind == "length")
        {
            if (cmd.contains("start"))
                o.d("val", pp.getTrajectoryLength(hx::num(cmd["start"]), hx::num(cmd["end"]), hx::num(cmd["dt"])));
            else if (cmd.contains("dt"))
                o.d("val", pp.getTrajectoryLength(hx::num(cmd["dt"])));
            else
                o.d("val", pp.getTrajectoryLength());
        }
        else
            o.str("error", "unknown query");
    }
};

#ifdef PP_DIM
#define PP_CAT2(a, b) make_ppoly_##a##_##b
#define PP_CAT(a, b) PP_CAT2(a, b)
#if PP_ORD < 0
IPPoly *PP_CAT(PP_DIM, dyn)()
{
    return new PBox<PP_DIM, Eigen::Dynamic>();
}
#else
IPPoly *PP_CAT(PP_DIM, PP_ORD)()
{
    return new PBox<PP_DIM, PP_ORD>();
}
#endif
#endif
