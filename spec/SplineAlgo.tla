------------------------------- MODULE SplineAlgo -------------------------------
(***************************************************************************)
(* The solvers of the library as they are written, with THEIR constants:   *)
(*   cubic   - tridiagonal system for the knot second derivatives M        *)
(*             (2h_0, h_0 | h_(i-1), 2(h_(i-1)+h_i), h_i | h_(n-1),        *)
(*             2h_(n-1)) and the closure c1, c2, c3 from M;                *)
(*   quintic - 2x2 block-tridiagonal system (blocks L, D, U, right-hand    *)
(*             side r with -192, 36, 9, -168, 24, -3, -360, 60) for the    *)
(*             knot velocities/accelerations, Hermite closure c3..c5       *)
(*             (10, -15, 6, -4, 7, -3, 1/2, -1, 1/2);                      *)
(*   septic  - 3x3 blocks (480, 120, 16, 5400, 1200, 25920, 360, 60, 4,    *)
(*             4680, 840, 24480; 840, 10080, 50400) and closure c4..c7     *)
(*             (210, 120, 90, 30, 15, 4, 1; 168, 90, 78, 20, 14, 2, 1; ...)*)
(* and the closed-form energy polynomials.                                 *)
(*                                                                         *)
(* MCSplineMath checks on the grid that the knot derivatives of the exact  *)
(* minimiser (SplineMath!MinCoeffs, which contains none of these numbers)  *)
(* satisfy every block equation, that the closures reproduce its           *)
(* coefficients and that the closed-form energy is the exact integral:     *)
(* the equations the code solves are the right ones, constant by constant, *)
(* including the first-block / last-block boundary terms.                  *)
(***************************************************************************)
EXTENDS SplineMath

RI(n) == RInt(n)
Inv(h, k) == RPow(h, -k)
\* knot derivative d of coordinate col at knot k (0..N) of the spline with coefficient matrix C
KnotD(pr, C, k, d, col) ==
    IF k < NSeg(pr) THEN PolyEvalD(SegPoly(C, pr.s, k + 1, col), Zero, d)
    ELSE PolyEvalD(SegPoly(C, pr.s, k, col), pr.T[k], d)
Lin(coefs, vals) == RSum([q \in 1..Len(coefs) |-> RMul(coefs[q], vals[q])])

(* ------------------------------- cubic -------------------------------- *)
CubicEquationsHold(pr, C, col) ==
    LET n == NSeg(pr)
        h(i) == pr.T[i + 1]                                   \* zero-based as in the code
        pd(i) == RDiv(RSub(pr.P[i + 2][col], pr.P[i + 1][col]), h(i))
        M(k) == KnotD(pr, C, k, 2, col)
        rhs(k) == IF k = 0 THEN RMul(RI(6), RSub(pd(0), pr.BS[1][col]))
                  ELSE IF k = n THEN RMul(RI(6), RSub(pr.BE[1][col], pd(n - 1)))
                  ELSE RMul(RI(6), RSub(pd(k), pd(k - 1)))
        lhs(k) == IF k = 0 THEN RAdd(RMul(RMul(RI(2), h(0)), M(0)), RMul(h(0), M(1)))
                  ELSE IF k = n THEN RAdd(RMul(h(n - 1), M(n - 1)), RMul(RMul(RI(2), h(n - 1)), M(n)))
                  ELSE RSum(<<RMul(h(k - 1), M(k - 1)), RMul(RMul(RI(2), RAdd(h(k - 1), h(k))), M(k)), RMul(h(k), M(k + 1))>>)
    IN /\ \A k \in 0..n : lhs(k) = rhs(k)
       /\ \A i \in 0..(n - 1) :
             LET c == SegPoly(C, 2, i + 1, col)
             IN /\ c[1] = pr.P[i + 1][col]
                /\ c[2] = RSub(pd(i), RMul(RDiv(h(i), RI(6)), RAdd(RMul(RI(2), M(i)), M(i + 1))))
                /\ c[3] = RMul(M(i), "1/2")
                /\ c[4] = RMul(RSub(M(i + 1), M(i)), RDiv(Inv(h(i), 1), RI(6)))
CubicEnergy(C, T, col) ==
    RSum([i \in 1..Len(T) |-> LET c == SegPoly(C, 2, i, col)  t == T[i]
          IN RSum(<<RMul(RMul(RI(12), RSq(c[4])), RPow(t, 3)), RMul(RMul(RI(12), RMul(c[3], c[4])), RPow(t, 2)), RMul(RMul(RI(4), RSq(c[3])), t)>>)])

(* ------------------------------- quintic ------------------------------ *)
\* block row k (interior knot k = 1..N-1): L y_(k-1) + D y_k + U y_(k+1) = r, y = (velocity, acceleration);
\* at the first / last block the neighbour is the boundary state (moved to the right-hand side in the code)
QuinticEquationsHold(pr, C, col) ==
    LET n == NSeg(pr)
        y(k) == <<KnotD(pr, C, k, 1, col), KnotD(pr, C, k, 2, col)>>
        dP(i) == RSub(pr.P[i + 2][col], pr.P[i + 1][col])
        blk(k) ==
            LET hL == pr.T[k]  hR == pr.T[k + 1]
                D == <<<<RMul(RI(-192), RAdd(Inv(hL, 3), Inv(hR, 3))), RMul(RI(36), RSub(Inv(hL, 2), Inv(hR, 2)))>>,
                       <<RMul(RI(-36), RSub(Inv(hL, 2), Inv(hR, 2))), RMul(RI(9), RAdd(Inv(hL, 1), Inv(hR, 1)))>>>>
                L == <<<<RMul(RI(-168), Inv(hL, 3)), RMul(RI(-24), Inv(hL, 2))>>, <<RMul(RI(-24), Inv(hL, 2)), RMul(RI(-3), Inv(hL, 1))>>>>
                U == <<<<RMul(RI(-168), Inv(hR, 3)), RMul(RI(24), Inv(hR, 2))>>, <<RMul(RI(24), Inv(hR, 2)), RMul(RI(-3), Inv(hR, 1))>>>>
                r == <<RMul(RI(-360), RAdd(RMul(dP(k), Inv(hR, 4)), RMul(dP(k - 1), Inv(hL, 4)))),
                       RMul(RI(60), RSub(RMul(dP(k), Inv(hR, 3)), RMul(dP(k - 1), Inv(hL, 3))))>>
            IN \A row \in 1..2 : RSum(<<RDot(L[row], y(k - 1)), RDot(D[row], y(k)), RDot(U[row], y(k + 1))>>) = r[row]
        closure(i) ==
            LET c == SegPoly(C, 3, i + 1, col)  h == pr.T[i + 1]
                c1 == y(i)[1]  c2 == RMul(y(i)[2], "1/2")
                rhs1 == RSub(RSub(dP(i), RMul(c1, h)), RMul(c2, RSq(h)))
                rhs2 == RSub(RSub(y(i + 1)[1], c1), RMul(RMul(RI(2), c2), h))
                rhs3 == RSub(y(i + 1)[2], RMul(RI(2), c2))
            IN /\ c[1] = pr.P[i + 1][col] /\ c[2] = c1 /\ c[3] = c2
               /\ c[4] = RSum(<<RMul(RMul(RI(10), Inv(h, 3)), rhs1), RMul(RMul(RI(-4), Inv(h, 2)), rhs2), RMul(RMul("1/2", Inv(h, 1)), rhs3)>>)
               /\ c[5] = RSum(<<RMul(RMul(RI(-15), Inv(h, 4)), rhs1), RMul(RMul(RI(7), Inv(h, 3)), rhs2), RMul(RNeg(Inv(h, 2)), rhs3)>>)
               /\ c[6] = RSum(<<RMul(RMul(RI(6), Inv(h, 5)), rhs1), RMul(RMul(RI(-3), Inv(h, 4)), rhs2), RMul(RMul("1/2", Inv(h, 3)), rhs3)>>)
    IN /\ \A k \in 1..(n - 1) : blk(k)
       /\ \A i \in 0..(n - 1) : closure(i)
       /\ y(0) = <<pr.BS[1][col], pr.BS[2][col]>> /\ y(n) = <<pr.BE[1][col], pr.BE[2][col]>>
QuinticEnergy(C, T, col) ==
    RSum([i \in 1..Len(T) |-> LET c == SegPoly(C, 3, i, col)  t == T[i]
          IN RSum(<<RMul(RMul(RI(36), RSq(c[4])), t), RMul(RMul(RI(144), RMul(c[5], c[4])), RPow(t, 2)), RMul(RMul(RI(192), RSq(c[5])), RPow(t, 3)),
                    RMul(RMul(RI(240), RMul(c[6], c[4])), RPow(t, 3)), RMul(RMul(RI(720), RMul(c[6], c[5])), RPow(t, 4)), RMul(RMul(RI(720), RSq(c[6])), RPow(t, 5))>>)])

(* ------------------------------- septic ------------------------------- *)
SepticEquationsHold(pr, C, col) ==
    LET n == NSeg(pr)
        y(k) == <<KnotD(pr, C, k, 1, col), KnotD(pr, C, k, 2, col), KnotD(pr, C, k, 3, col)>>
        P(k) == pr.P[k + 1][col]
        blk(k) ==
            LET hL == pr.T[k]  hR == pr.T[k + 1]
                r == <<RMul(RI(840), RAdd(RMul(RSub(P(k + 1), P(k)), Inv(hR, 4)), RMul(RSub(P(k), P(k - 1)), Inv(hL, 4)))),
                       RMul(RI(10080), RAdd(RMul(RSub(P(k), P(k + 1)), Inv(hR, 5)), RMul(RSub(P(k), P(k - 1)), Inv(hL, 5)))),
                       RMul(RI(50400), RAdd(RMul(RSub(P(k + 1), P(k)), Inv(hR, 6)), RMul(RSub(P(k), P(k - 1)), Inv(hL, 6))))>>
                D == <<<<RMul(RI(480), RAdd(Inv(hL, 3), Inv(hR, 3))), RMul(RI(120), RSub(Inv(hR, 2), Inv(hL, 2))), RMul(RI(16), RAdd(Inv(hL, 1), Inv(hR, 1)))>>,
                       <<RMul(RI(5400), RSub(Inv(hL, 4), Inv(hR, 4))), RMul(RI(-1200), RAdd(Inv(hL, 3), Inv(hR, 3))), RMul(RI(120), RSub(Inv(hL, 2), Inv(hR, 2)))>>,
                       <<RMul(RI(25920), RAdd(Inv(hL, 5), Inv(hR, 5))), RMul(RI(5400), RSub(Inv(hR, 4), Inv(hL, 4))), RMul(RI(480), RAdd(Inv(hL, 3), Inv(hR, 3)))>>>>
                L == <<<<RMul(RI(360), Inv(hL, 3)), RMul(RI(60), Inv(hL, 2)), RMul(RI(4), Inv(hL, 1))>>,
                       <<RMul(RI(4680), Inv(hL, 4)), RMul(RI(840), Inv(hL, 3)), RMul(RI(60), Inv(hL, 2))>>,
                       <<RMul(RI(24480), Inv(hL, 5)), RMul(RI(4680), Inv(hL, 4)), RMul(RI(360), Inv(hL, 3))>>>>
                U == <<<<RMul(RI(360), Inv(hR, 3)), RMul(RI(-60), Inv(hR, 2)), RMul(RI(4), Inv(hR, 1))>>,
                       <<RMul(RI(-4680), Inv(hR, 4)), RMul(RI(840), Inv(hR, 3)), RMul(RI(-60), Inv(hR, 2))>>,
                       <<RMul(RI(24480), Inv(hR, 5)), RMul(RI(-4680), Inv(hR, 4)), RMul(RI(360), Inv(hR, 3))>>>>
            IN \A row \in 1..3 : RSum(<<RDot(L[row], y(k - 1)), RDot(D[row], y(k)), RDot(U[row], y(k + 1))>>) = r[row]
        closure(i) ==
            LET c == SegPoly(C, 4, i + 1, col)  h == pr.T[i + 1]
                Vc == y(i)[1]  Vn == y(i + 1)[1]  Ac == y(i)[2]  An == y(i + 1)[2]  Jc == y(i)[3]  Jn == y(i + 1)[3]
                Pd == RNeg(RSub(P(i + 1), P(i)))                                   \* P_diff = -point_diffs_
            IN /\ c[1] = P(i) /\ c[2] = Vc /\ c[3] = RMul(Ac, "1/2") /\ c[4] = RDiv(Jc, RI(6))
               /\ c[5] = RDiv(RNeg(RSum(<<RMul(RMul(RI(210), Pd), Inv(h, 4)), RMul(RMul(RI(120), Vc), Inv(h, 3)), RMul(RMul(RI(90), Vn), Inv(h, 3)),
                                         RMul(RMul(RI(30), Ac), Inv(h, 2)), RMul(RMul(RI(-15), An), Inv(h, 2)), RMul(RMul(RI(4), Jc), Inv(h, 1)), RMul(Jn, Inv(h, 1))>>)), RI(6))
               /\ c[6] = RDiv(RSum(<<RMul(RMul(RI(168), Pd), Inv(h, 5)), RMul(RMul(RI(90), Vc), Inv(h, 4)), RMul(RMul(RI(78), Vn), Inv(h, 4)),
                                    RMul(RMul(RI(20), Ac), Inv(h, 3)), RMul(RMul(RI(-14), An), Inv(h, 3)), RMul(RMul(RI(2), Jc), Inv(h, 2)), RMul(Jn, Inv(h, 2))>>), RI(2))
               /\ c[7] = RDiv(RNeg(RSum(<<RMul(RMul(RI(420), Pd), Inv(h, 6)), RMul(RMul(RI(216), Vc), Inv(h, 5)), RMul(RMul(RI(204), Vn), Inv(h, 5)),
                                         RMul(RMul(RI(45), Ac), Inv(h, 4)), RMul(RMul(RI(-39), An), Inv(h, 4)), RMul(RMul(RI(4), Jc), Inv(h, 3)), RMul(RMul(RI(3), Jn), Inv(h, 3))>>)), RI(6))
               /\ c[8] = RDiv(RSum(<<RMul(RMul(RI(120), Pd), Inv(h, 7)), RMul(RMul(RI(60), Vc), Inv(h, 6)), RMul(RMul(RI(60), Vn), Inv(h, 6)),
                                    RMul(RMul(RI(12), Ac), Inv(h, 5)), RMul(RMul(RI(-12), An), Inv(h, 5)), RMul(Jc, Inv(h, 4)), RMul(Jn, Inv(h, 4))>>), RI(6))
    IN /\ \A k \in 1..(n - 1) : blk(k)
       /\ \A i \in 0..(n - 1) : closure(i)

AlgoEquationsHold(pr, C) ==
    \A col \in 1..Dim(pr) :
        CASE pr.s = 2 -> CubicEquationsHold(pr, C, col) /\ CubicEnergy(C, pr.T, col) = EnergyOfCoord(C, 2, pr.T, col)
          [] pr.s = 3 -> QuinticEquationsHold(pr, C, col) /\ QuinticEnergy(C, pr.T, col) = EnergyOfCoord(C, 3, pr.T, col)
          [] pr.s = 4 -> SepticEquationsHold(pr, C, col)
=============================================================================
