INIT Init
NEXT Next
CONSTANTS
  MaxN = 4
  Durs = {"1/2", "1", "3"}
  Orders = {2, 3, 4}
INVARIANTS Exists Defining Optimal Book EnergyLaws Coordwise AdjointOK EnergyGradOK Metamorphic Variational Algo
CHECK_DEADLOCK FALSE
