----------------------------- MODULE SelfTestRat -----------------------------
(* Differential self-test of the Rat override against integer-pair arithmetic *)
(* written in TLA+, and of the bulk speed-ups against their TLA+ definitions.  *)
EXTENDS Numerics, FiniteSets

Pairs == {<<n, d>> : n \in -6..6, d \in 1..5}
ToR(p) == RDiv(RInt(p[1]), RInt(p[2]))
PAdd(p, q) == <<p[1] * q[2] + q[1] * p[2], p[2] * q[2]>>
PSub(p, q) == <<p[1] * q[2] - q[1] * p[2], p[2] * q[2]>>
PMul(p, q) == <<p[1] * q[1], p[2] * q[2]>>
PLt(p, q) == p[1] * q[2] < q[1] * p[2]
PEq(p, q) == p[1] * q[2] = q[1] * p[2]

ASSUME \A p, q \in Pairs :
    /\ RAdd(ToR(p), ToR(q)) = ToR(PAdd(p, q))
    /\ RSub(ToR(p), ToR(q)) = ToR(PSub(p, q))
    /\ RMul(ToR(p), ToR(q)) = ToR(PMul(p, q))
    /\ RLt(ToR(p), ToR(q)) = PLt(p, q)
    /\ RLe(ToR(p), ToR(q)) = (PLt(p, q) \/ PEq(p, q))
    /\ (ToR(p) = ToR(q)) = PEq(p, q)
    /\ (q[1] # 0 => RMul(RDiv(ToR(p), ToR(q)), ToR(q)) = ToR(p))
    /\ RCmp(ToR(p), ToR(q)) = (IF PLt(p, q) THEN -1 ELSE IF PEq(p, q) THEN 0 ELSE 1)
ASSUME \A p \in Pairs :
    /\ RNeg(RNeg(ToR(p))) = ToR(p)
    /\ RAbs(ToR(p)) = ToR(<<IF p[1] < 0 THEN -p[1] ELSE p[1], p[2]>>)
    /\ RLe(RFloor(ToR(p)), ToR(p)) /\ RLt(ToR(p), RAdd(RFloor(ToR(p)), One)) /\ RIsInt(RFloor(ToR(p)))
    /\ RPow(ToR(p), 3) = RMul(ToR(p), RMul(ToR(p), ToR(p)))
    /\ (p[1] # 0 => RPow(ToR(p), -2) = RDiv(One, RMul(ToR(p), ToR(p))))
    /\ RSign(ToR(p)) = (IF p[1] < 0 THEN -1 ELSE IF p[1] = 0 THEN 0 ELSE 1)
\* hex-float literals
ASSUME /\ RFromHex("0x1p+0") = "1" /\ RFromHex("0x1.8p+1") = "3" /\ RFromHex("-0x1p-2") = "-1/4"
       /\ RFromHex("0x0p+0") = "0" /\ RFromHex("-0x0p+0") = "0"
       /\ RFromHex("0x1.999999999999ap-4") = "3602879701896397/36028797018963968"
       /\ RFromHex("0x0.0000000000001p-1022") = RPow("2", -1074)
       /\ RIsFiniteHex("0x1p+0") /\ ~RIsFiniteHex("nan") /\ ~RIsFiniteHex("-inf") /\ ~RIsFiniteHex("-nan")
       /\ RHexClass("inf") = "+inf" /\ RHexClass("-inf") = "-inf" /\ RHexClass("-nan") = "nan"
       /\ RUlpHex("0x1p+0") = RPow("2", -52) /\ RUlpHex("0x1.fffffffffffffp-1") = RPow("2", -53)
       /\ RFromHex(RToHex("1/3")) = RFromHex("0x1.5555555555555p-2")
       /\ RFromHex(RToHex("2/3")) = RFromHex("0x1.5555555555555p-1")
       /\ RIsDouble("3/8") /\ ~RIsDouble("1/3")
       /\ RSqrtLo("2", 3) = "707/500" /\ RSqrtHi("2", 3) = "283/200" /\ RSqrtLo("4", 2) = "2"
\* bulk folds against their definitions
Vs == {<<"1/2", "-3", "5/7">>, <<>>, <<"0", "0", "1">>, <<"22/7", "-22/7", "1/1000000007">>}
ASSUME \A s \in Vs : RSum(s) = RSumDef(s) /\ RHorner(s, "2/3") = RHornerDef(s, "2/3")
ASSUME \A s, t \in Vs : Len(s) = Len(t) => RDot(s, t) = RDotDef(s, t)
Hilb(n) == [i \in 1..n |-> [j \in 1..n |-> RFrac(1, i + j - 1)]]
Rhs(n) == [i \in 1..n |-> <<RInt(i), RFrac(1, i)>>]
Perm3 == <<<<"0", "1", "0">>, <<"0", "0", "2">>, <<"3", "0", "0">>>>
ASSUME \A n \in 1..6 : RSolveFast(Hilb(n), Rhs(n)) = SolveDef(Hilb(n), Rhs(n))
ASSUME \A n \in 1..6 : MatMul(Hilb(n), SolveDef(Hilb(n), Rhs(n))) = Rhs(n)
ASSUME SolveDef(Perm3, <<<<"1">>, <<"2">>, <<"3">>>>) = <<<<"1">>, <<"1">>, <<"1">>>>
ASSUME RSolveFast(Perm3, <<<<"1">>, <<"2">>, <<"3">>>>) = <<<<"1">>, <<"1">>, <<"1">>>>
ASSUME IsNonsingular(Hilb(4)) /\ ~IsNonsingular(<<<<"1", "2">>, <<"2", "4">>>>)
\* polynomials
P1 == <<"1", "2", "3">>   \* 1 + 2x + 3x^2
ASSUME /\ PolyEval(P1, "3/2") = "43/4" /\ PolyEvalD(P1, "3/2", 1) = "11" /\ PolyEvalD(P1, "5", 2) = "6"
       /\ PolyEvalD(P1, "5", 3) = "0" /\ PolyDeriv(P1, 3) = <<>>
       /\ PolyMul(P1, <<"1", "1">>) = <<"1", "3", "5", "3">>
       /\ PolyInt(P1, "2") = "14"
       /\ FF(7, 3) = 210 /\ FF(3, 0) = 1 /\ FF(2, 3) = 0 /\ FF(11, 6) = 332640
VARIABLE x
Init == x = 0
Next == UNCHANGED x
=============================================================================
