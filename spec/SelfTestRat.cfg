INIT Init
NEXT Next
