INIT Init
NEXT Next
CONSTANTS
  Orders = {2, 3, 4}
  Ns = {1, 2, 3}
  Ds = {1, 2, 3}
  FlagSets = {"none", "all", "start", "end"}
  Ks = {1, 2, 5}
INVARIANTS LayoutLaw RoundTrip Pinned GradOK TwoCost
CHECK_DEADLOCK FALSE
