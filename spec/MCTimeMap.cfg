SPECIFICATION Spec
CONSTANTS
  Num = 40
  Den = {1, 2, 3, 7, 64}
  Broken = "none"
INVARIANTS Positive Increasing DerivOK SmoothAtSwitch InverseOK BackwardOK
CHECK_DEADLOCK FALSE
