------------------------------ MODULE TraceTimeMap ------------------------------
(* Trace specification for the time maps (C17): every logged value of toTime, toTau  *)
(* and backward is judged against the exact rational map TimeMap on the logged bits. *)
EXTENDS TimeMap, Json, IOUtils, Integers, TLC

Tr == ndJsonDeserialize(IOEnv.TRACE)
VARIABLES l, bad, stats, worst, sc
tvars == <<l, bad, stats, worst, sc>>
H(x) == RFromHex(x)
Tiny == RPow("10", -300)
Eps == RPow("2", -52)
Tol13 == RPow("10", -13)
Tol9 == RPow("10", -9)
Cand(prop, code, ok, info) == [prop |-> prop, code |-> code, ok |-> ok, info |-> info, m |-> Zero]
CandM(prop, code, err, tol, info) == [prop |-> prop, code |-> code, ok |-> RLe(err, tol), info |-> info,
                                      m |-> IF tol = Zero THEN (IF err = Zero THEN Zero ELSE "1000000") ELSE RDiv(err, tol)]
Bump(st, key, n) == IF key \in DOMAIN st THEN [st EXCEPT ![key] = @ + n] ELSE st @@ (key :> n)
Fails(cands) == SelectSeq(cands, LAMBDA c : ~c.ok)
Devs(cands) == LET f == Fails(cands) IN [i \in 1..Len(f) |-> [prop |-> f[i].prop, code |-> f[i].code, info |-> f[i].info, line |-> l, exec |-> 1, obj |-> 0]]
UpdWorst(w0, cs) ==
    LET F[i \in 0..Len(cs)] ==
            IF i = 0 THEN w0
            ELSE LET c == cs[i]  k == c.prop \o ":" \o c.code  w == F[i - 1]
                 IN IF c.m = Zero THEN w
                    ELSE IF k \in DOMAIN w THEN (IF RLt(w[k], c.m) THEN [w EXCEPT ![k] = c.m] ELSE w)
                    ELSE w @@ (k :> c.m)
    IN F[Len(cs)]
RelErr(got, want) == RDiv(RAbs(RSub(got, want)), RMax(RAbs(want), Tiny))
AllFin(v) == \A i \in 1..Len(v) : RIsFiniteHex(v[i])
IsQuad(ev) == ~("map" \in DOMAIN ev) \/ ev.map = "quad"

\* one candidate per entry would make millions of records; each event yields one candidate per law with the worst entry
WorstOf(seq0) == LET seq == Force(seq0)
                    F[i \in 0..Len(seq)] == IF i = 0 THEN <<Zero, 0>> ELSE LET p == F[i - 1] IN IF RLt(p[1], seq[i]) THEN <<seq[i], i>> ELSE p
                IN F[Len(seq)]

ToTimeCands(ev) ==
    LET n == Len(ev.taus)
        tau == Force([i \in 1..n |-> H(ev.taus[i])])
        info(i) == [n |-> n, at |-> IF i > 0 THEN ev.taus[i] ELSE "-"]
    IN IF ~AllFin(ev.out.T) THEN <<Cand("C17", "totime.finite", FALSE, info(0))>>
       ELSE LET T == Force([i \in 1..n |-> H(ev.out.T[i])])
            IN IF ~IsQuad(ev) THEN <<Cand("C17", "identity.totime", ev.out.T = ev.taus, info(0))>>
               ELSE LET ex == Force([i \in 1..n |-> ToTime(tau[i])])
                        w == WorstOf([i \in 1..n |-> RelErr(T[i], ex[i])])
                        sorted == \A i \in 1..(n - 1) : RLe(tau[i], tau[i + 1])
                    IN <<Cand("C17", "totime.positive", \A i \in 1..n : RLt(Zero, T[i]), info(0)),
                         CandM("C17", "totime.value", w[1], Tol13, info(w[2])),
                         Cand("C17", "totime.monotone", sorted => \A i \in 1..(n - 1) : RLe(T[i], T[i + 1]), info(0)),
                         Cand("C17", "totime.strict",
                              sorted => \A i \in 1..(n - 1) :
                                  RLt(RMul(RMul("4", Eps), ex[i + 1]), RSub(ex[i + 1], ex[i])) => RLt(T[i], T[i + 1]), info(0))>>
ToTauCands(ev) ==
    LET n == Len(ev.Ts)
        info(i) == [n |-> n, at |-> IF i > 0 THEN ev.Ts[i] ELSE "-"]
    IN IF ~AllFin(ev.out.tau) \/ ~AllFin(ev.out.T_again) THEN <<Cand("C17", "totau.finite", FALSE, info(0))>>
       ELSE IF ~IsQuad(ev) THEN <<Cand("C17", "identity.totau", ev.out.tau = ev.Ts /\ ev.out.T_again = ev.Ts, info(0))>>
       ELSE LET T == Force([i \in 1..n |-> H(ev.Ts[i])])
                w1 == WorstOf([i \in 1..n |-> RelErr(ToTime(H(ev.out.tau[i])), T[i])])
                w2 == WorstOf([i \in 1..n |-> RelErr(H(ev.out.T_again[i]), T[i])])
            IN <<CandM("C17", "totau.inverse", w1[1], Tol9, info(w1[2])),
                 CandM("C17", "totau.roundtrip", w2[1], Tol9, info(w2[2]))>>
TauRoundCands(ev) ==
    LET n == Len(ev.taus)
        info(i) == [n |-> n, at |-> IF i > 0 THEN ev.taus[i] ELSE "-"]
    IN IF ~AllFin(ev.out.tau_again) THEN <<Cand("C17", "tauround.finite", FALSE, info(0))>>
       ELSE IF ~IsQuad(ev) THEN <<Cand("C17", "identity.roundtrip", ev.out.tau_again = ev.taus, info(0))>>
       ELSE LET w == WorstOf([i \in 1..n |-> RelErr(ToTime(H(ev.out.tau_again[i])), ToTime(H(ev.taus[i])))])
            IN <<CandM("C17", "tauround.inverse", w[1], Tol9, info(w[2]))>>
BackwardCands(ev) ==
    LET n == Len(ev.taus)
        info(i) == [n |-> n, at |-> IF i > 0 THEN ev.taus[i] ELSE "-"]
    IN IF ~AllFin(ev.out.grad) THEN <<Cand("C17", "backward.finite", FALSE, info(0))>>
       ELSE IF ~IsQuad(ev) THEN <<Cand("C17", "identity.backward", ev.out.grad = ev.gs, info(0))>>
       ELSE LET want == Force([i \in 1..n |-> Backward(H(ev.taus[i]), H(ev.gs[i]))])
                w == WorstOf([i \in 1..n |-> RDiv(RAbs(RSub(H(ev.out.grad[i]), want[i])), RAdd(RMul(Tol13, RAbs(want[i])), Tiny))])
            IN <<CandM("C17", "backward.value", w[1], One, info(w[2])),
                 Cand("C17", "backward.sign", \A i \in 1..n : RSign(H(ev.out.grad[i])) = RSign(H(ev.gs[i])), info(0))>>

Step(ev) ==
    LET cands == CASE ev.e = "totime" -> ToTimeCands(ev)
                   [] ev.e = "totau" -> ToTauCands(ev)
                   [] ev.e = "tau_roundtrip" -> TauRoundCands(ev)
                   [] ev.e = "backward" -> BackwardCands(ev)
                   [] OTHER -> <<>>
        n == IF "taus" \in DOMAIN ev THEN Len(ev.taus) ELSE IF "Ts" \in DOMAIN ev THEN Len(ev.Ts) ELSE 0
    IN Force([cands |-> cands, n |-> n])
Next ==
    /\ l <= Len(Tr)
    /\ sc' = Step(Tr[l])
    /\ bad' = bad \o Devs(sc'.cands)
    /\ worst' = UpdWorst(worst, sc'.cands)
    /\ stats' = Bump(Bump(Bump(stats, Tr[l].e, 1), "judgements", Len(sc'.cands)), "values_judged", sc'.n)
    /\ l' = l + 1
Init == l = 1 /\ bad = <<>> /\ stats = [lines |-> Len(Tr), executions |-> 1] /\ worst = << >> /\ sc = << >>
TraceSpec == Init /\ [][Next]_tvars
Done == l = Len(Tr) + 1
Emit == Done => JsonSerialize(IOEnv.OUT, [bad |-> bad, stats |-> stats, lines |-> Len(Tr), worst |-> [k \in DOMAIN worst |-> RShow(worst[k])]])
TraceAccepted == TLCGet("stats").diameter - 1 = Len(Tr)
=============================================================================
