SPECIFICATION TraceSpec
INVARIANT TraceInv
CONSTRAINT Emit
POSTCONDITION TraceAccepted
CHECK_DEADLOCK FALSE
