---- MODULE MCSplineMath_TTrace_1790575398 ----
EXTENDS MCSplineMath, Sequences, TLCExt, Toolbox, Naturals, TLC

_expression ==
    LET MCSplineMath_TEExpression == INSTANCE MCSplineMath_TEExpression
    IN MCSplineMath_TEExpression!expression
----

_trace ==
    LET MCSplineMath_TETrace == INSTANCE MCSplineMath_TETrace
    IN MCSplineMath_TETrace!trace
----

_inv ==
    ~(
        TLCGet("level") = Len(_TETrace)
        /\
        pt = (<<4, <<"1/2", "1/2">>, 1, "point">>)
    )
----

_init ==
    /\ pt = _TETrace[1].pt
----

_next ==
    /\ \E i,j \in DOMAIN _TETrace:
        /\ \/ /\ j = i + 1
              /\ i = TLCGet("level")
        /\ pt  = _TETrace[i].pt
        /\ pt' = _TETrace[j].pt

\* Uncomment the ASSUME below to write the states of the error trace
\* to the given file in Json format. Note that you can pass any tuple
\* to `JsonSerialize`. For example, a sub-sequence of _TETrace.
    \* ASSUME
    \*     LET J == INSTANCE Json
    \*         IN J!JsonSerialize("MCSplineMath_TTrace_1790575398.json", _TETrace)

=============================================================================

 Note that you can extract this module `MCSplineMath_TEExpression`
  to a dedicated file to reuse `expression` (the module in the 
  dedicated `MCSplineMath_TEExpression.tla` file takes precedence 
  over the module `MCSplineMath_TEExpression` below).

---- MODULE MCSplineMath_TEExpression ----
EXTENDS MCSplineMath, Sequences, TLCExt, Toolbox, Naturals, TLC

expression == 
    [
        \* To hide variables of the `MCSplineMath` spec from the error trace,
        \* remove the variables below.  The trace will be written in the order
        \* of the fields of this record.
        pt |-> pt
        
        \* Put additional constant-, state-, and action-level expressions here:
        \* ,_stateNumber |-> _TEPosition
        \* ,_ptUnchanged |-> pt = pt'
        
        \* Format the `pt` variable as Json value.
        \* ,_ptJson |->
        \*     LET J == INSTANCE Json
        \*     IN J!ToJson(pt)
        
        \* Lastly, you may build expressions over arbitrary sets of states by
        \* leveraging the _TETrace operator.  For example, this is how to
        \* count the number of times a spec variable changed up to the current
        \* state in the trace.
        \* ,_ptModCount |->
        \*     LET F[s \in DOMAIN _TETrace] ==
        \*         IF s = 1 THEN 0
        \*         ELSE IF _TETrace[s].pt # _TETrace[s-1].pt
        \*             THEN 1 + F[s-1] ELSE F[s-1]
        \*     IN F[_TEPosition - 1]
    ]

=============================================================================



Parsing and semantic processing can take forever if the trace below is long.
 In this case, it is advised to uncomment the module below to deserialize the
 trace from a generated binary file.

\*
\*---- MODULE MCSplineMath_TETrace ----
\*EXTENDS MCSplineMath, IOUtils, TLC
\*
\*trace == IODeserialize("MCSplineMath_TTrace_1790575398.bin", TRUE)
\*
\*=============================================================================
\*

---- MODULE MCSplineMath_TETrace ----
EXTENDS MCSplineMath, TLC

trace == 
    <<
    ([pt |-> <<>>]),
    ([pt |-> <<4>>]),
    ([pt |-> <<4, 1, 2>>]),
    ([pt |-> <<4, 1, 2, <<>>, "partial">>]),
    ([pt |-> <<4, 1, 2, <<"1/2">>, "partial">>]),
    ([pt |-> <<4, <<"1/2", "1/2">>, 1, "point">>])
    >>
----


=============================================================================

---- CONFIG MCSplineMath_TTrace_1790575398 ----
CONSTANTS
    MaxN = 3
    Durs = { "1/2" , "1" , "2" }
    Orders = { 2 , 3 , 4 }

INVARIANT
    _inv

CHECK_DEADLOCK
    \* CHECK_DEADLOCK off because of PROPERTY or INVARIANT above.
    FALSE

INIT
    _init

NEXT
    _next

CONSTANT
    _TETrace <- _trace

ALIAS
    _expression
=============================================================================
\* Generated on Mon Sep 28 06:03:33 UTC 2026