--------------------------------- MODULE OptObj ---------------------------------
(***************************************************************************)
(* SplineOptimizer objects, user-owned maps and workspaces as a state      *)
(* machine: one action per public call.                                    *)
(*                                                                         *)
(* Abstract state of an optimizer: its configuration `cfg` (reference      *)
(* problem, flags, energy weight, steps - opaque here), the verdict of the *)
(* last initialisation, and which time / spatial map it uses.              *)
(* Hidden state that must never show through:                              *)
(*   lay      - the lazily rebuilt layout cache: `dirty` bit and the       *)
(*              layout key (what the layout depends on: segment count,     *)
(*              flags, spatial map) it was built for; every setter that    *)
(*              changes the key must mark it dirty;                        *)
(*   tref/sref - raw pointers to EITHER the object's own default map       *)
(*              ([own |-> id of the object whose member it points into])   *)
(*              OR a user map ([user |-> map id], referenced, not owned);  *)
(*              the copy operations must re-point "own" at the copy;       *)
(*   ws       - the built-in workspace, created on first use, deep-copied  *)
(*              by the copy operations (a unique id models its address).   *)
(***************************************************************************)
EXTENDS Integers, Sequences, FiniteSets, TLC

VARIABLES opts,      \* live optimizer id -> record
          umaps,     \* live user map id -> version counter (bumped when the user mutates the map in place)
          nextWs     \* next fresh workspace id

OptInit == opts = << >> /\ umaps = << >> /\ nextWs = 1
OLive == DOMAIN opts

\* what the layout depends on
LayKey(o) == [n |-> o.n, flags |-> o.flags, sref |-> o.sref]
Own(id) == [own |-> id]
User(m) == [user |-> m]

NewOpt(id) == [cfgv |-> 0, n |-> 0, flags |-> <<>>, valid |-> FALSE, msg |-> FALSE,
               tref |-> Own(id), sref |-> Own(id),
               lay |-> [dirty |-> TRUE, key |-> <<>>], ws |-> 0, staleLayout |-> FALSE]
PutO(id, rec) == opts' = [i \in OLive \cup {id} |-> IF i = id THEN rec ELSE opts[i]]

ONew(id) == PutO(id, NewOpt(id)) /\ UNCHANGED <<umaps, nextWs>>

\* setInitState: stores the problem (version v, n segments), the verdict, marks the layout dirty;
\* `stored` is FALSE for the empty-time-points path, which rejects before storing anything
OSetInit(id, v, n, valid, stored) ==
    /\ id \in OLive
    /\ PutO(id, IF stored THEN [opts[id] EXCEPT !.cfgv = v, !.n = n, !.valid = valid, !.msg = ~valid, !.lay.dirty = TRUE]
                ELSE [opts[id] EXCEPT !.valid = FALSE, !.msg = TRUE])
    /\ UNCHANGED <<umaps, nextWs>>
OSetFlags(id, f) == id \in OLive /\ PutO(id, [opts[id] EXCEPT !.flags = f, !.lay.dirty = TRUE]) /\ UNCHANGED <<umaps, nextWs>>
\* m = 0 means nullptr: back to the object's own default map
OSetSMap(id, m) == id \in OLive /\ (m = 0 \/ m \in DOMAIN umaps)
                   /\ PutO(id, [opts[id] EXCEPT !.sref = IF m = 0 THEN Own(id) ELSE User(m), !.lay.dirty = TRUE]) /\ UNCHANGED <<umaps, nextWs>>
OSetTMap(id, m) == id \in OLive /\ (m = 0 \/ m \in DOMAIN umaps)
                   /\ PutO(id, [opts[id] EXCEPT !.tref = IF m = 0 THEN Own(id) ELSE User(m)]) /\ UNCHANGED <<umaps, nextWs>>
OSetOther(id) == id \in OLive /\ UNCHANGED <<opts, umaps, nextWs>>          \* energy weight, steps: no hidden state involved

\* every reader of the layout first ensures the cache (const methods fill the mutable cache)
Ensured(o) == IF o.lay.dirty THEN [o EXCEPT !.lay = [dirty |-> FALSE, key |-> LayKey(o)]] ELSE o
AfterRead(o) == LET e == Ensured(o) IN [e EXCEPT !.staleLayout = @ \/ e.lay.key # LayKey(e)]
OReadLayout(id) == id \in OLive /\ PutO(id, AfterRead(opts[id])) /\ UNCHANGED <<umaps, nextWs>>       \* getDimension, generateInitialGuess
\* evaluate / checkGradients: reads the layout; with no workspace argument uses (and creates) the built-in one
OEvaluate(id, ownWs) ==
    /\ id \in OLive
    /\ LET o == AfterRead(opts[id])
           mk == ownWs /\ o.ws = 0
       IN /\ PutO(id, IF mk THEN [o EXCEPT !.ws = nextWs] ELSE o)
          /\ nextWs' = IF mk THEN nextWs + 1 ELSE nextWs
    /\ UNCHANGED umaps

\* copy construction / assignment: own maps re-pointed at the copy, user maps shared, workspace deep-copied
Repoint(ref, src, dst) == IF "own" \in DOMAIN ref /\ ref.own = src THEN Own(dst) ELSE ref
CopyOf(src, dst) ==
    LET o == opts[src]
    IN [o EXCEPT !.tref = Repoint(o.tref, src, dst), !.sref = Repoint(o.sref, src, dst),
                 !.lay = [dirty |-> o.lay.dirty, key |-> IF o.lay.key = <<>> THEN <<>> ELSE [o.lay.key EXCEPT !.sref = Repoint(@, src, dst)]],
                 !.ws = IF o.ws = 0 THEN 0 ELSE nextWs]
OCopy(dst, src) ==
    /\ src \in OLive
    /\ (dst = src => dst \in OLive)
    /\ IF dst = src THEN UNCHANGED <<opts, nextWs>>                      \* self-assignment is a no-op
       ELSE /\ PutO(dst, CopyOf(src, dst))
            /\ nextWs' = IF opts[src].ws = 0 THEN nextWs ELSE nextWs + 1
    /\ UNCHANGED umaps
ODestroy(id) == id \in OLive /\ opts' = [i \in OLive \ {id} |-> opts[i]] /\ UNCHANGED <<umaps, nextWs>>
MapNew(m) == umaps' = [i \in DOMAIN umaps \cup {m} |-> IF i = m THEN 1 ELSE umaps[i]] /\ UNCHANGED <<opts, nextWs>>
MapMutate(m) == m \in DOMAIN umaps /\ umaps' = [umaps EXCEPT ![m] = @ + 1] /\ UNCHANGED <<opts, nextWs>>
OReset == opts' = << >> /\ umaps' = << >> /\ nextWs' = 1

(* ------------------------------ invariants ---------------------------- *)
\* no reader has ever seen a layout built for another configuration (C09)
LayoutTransparent == \A i \in OLive : ~opts[i].staleLayout
\* an "own" pointer points into the object that holds it; a user pointer names a live map (C15)
RefOK(id, ref) == IF "own" \in DOMAIN ref THEN ref.own = id ELSE ref.user \in DOMAIN umaps
NoDangling == \A i \in OLive : RefOK(i, opts[i].tref) /\ RefOK(i, opts[i].sref)
\* built-in workspaces are never shared (C15)
NoSharedWorkspace == \A i, j \in OLive : i # j /\ opts[i].ws # 0 => opts[i].ws # opts[j].ws
\* a message is available exactly when the last initialisation failed (C16)
VerdictCoherent == \A i \in OLive : opts[i].cfgv > 0 => (opts[i].msg = ~opts[i].valid)
OptObjInv == LayoutTransparent /\ NoDangling /\ NoSharedWorkspace /\ VerdictCoherent
=============================================================================
