--------------------------------- MODULE TraceOpt ---------------------------------
(***************************************************************************)
(* Trace specification for SplineOptimizer: steps OptObj along a recording *)
(* made by harness/opt_replay and judges every observation against OptMath *)
(* in exact arithmetic (C07, C08, C09, C12 bit identity, C15, C16 first     *)
(* sentence, C19).  Monitor style: deviations are collected in `bad`.       *)
(* Every action computes its step once in a value-level operator (XxxStep)  *)
(* stored in the scratch variable sc' (see TraceSpline).                    *)
(***************************************************************************)
EXTENDS OptMath, OptObj, Json, IOUtils

Tr == ndJsonDeserialize(IOEnv.TRACE)

VARIABLES l, bad, stats, worst, memo, nexec, sc,
          cfgs,      \* optimizer id -> concrete configuration
          mstate     \* user map id -> [kind, scale / gain]
tvars == <<l, bad, stats, worst, memo, nexec, sc, cfgs, mstate, opts, umaps, nextWs>>

Has(r, f) == f \in DOMAIN r
H(x) == RFromHex(x)
HV(v) == Force([i \in 1..Len(v) |-> RFromHex(v[i])])
HM(m) == Force([i \in 1..Len(m) |-> HV(m[i])])
FinV(v) == \A i \in 1..Len(v) : RIsFiniteHex(v[i])
FinM(m) == \A i \in 1..Len(m) : FinV(m[i])
Tol6 == RPow("10", -6)
Tol9 == RPow("10", -9)
Tol13 == RPow("10", -13)
Eps == RPow("2", -52)
MinDur == RFromHex("0x1.0624dd2f1a9fcp-10")     \* the double 1e-3

Cand(prop, code, ok, info) == [prop |-> prop, code |-> code, ok |-> ok, info |-> info, m |-> Zero]
CandM(prop, code, err, tol, info) == [prop |-> prop, code |-> code, ok |-> RLe(err, tol), info |-> info,
                                      m |-> IF tol = Zero THEN (IF err = Zero THEN Zero ELSE "1000000") ELSE RDiv(err, tol)]
Fails(cands) == SelectSeq(cands, LAMBDA c : ~c.ok)
Mk(c, ev) == [prop |-> c.prop, code |-> c.code, info |-> c.info, line |-> l, exec |-> nexec, obj |-> IF Has(ev, "obj") THEN ev.obj ELSE 0]
Devs(cands, ev) == LET f == Fails(cands) IN [i \in 1..Len(f) |-> Mk(f[i], ev)]
UpdWorst(w0, cs) ==
    LET F[i \in 0..Len(cs)] ==
            IF i = 0 THEN w0
            ELSE LET c == cs[i]  k == c.prop \o ":" \o c.code  w == F[i - 1]
                 IN IF c.m = Zero THEN w
                    ELSE IF k \in DOMAIN w THEN (IF RLt(w[k], c.m) THEN [w EXCEPT ![k] = c.m] ELSE w)
                    ELSE w @@ (k :> c.m)
    IN F[Len(cs)]
Bump(st, key, n) == IF key \in DOMAIN st THEN [st EXCEPT ![key] = @ + n] ELSE st @@ (key :> n)
RECURSIVE BumpAll(_, _)
BumpAll(st, keys) == IF keys = <<>> THEN st ELSE BumpAll(Force(Bump(st, Head(keys), 1)), Tail(keys))
MemoCand(prop, code, key, val, info) == Cand(prop, code, key \notin DOMAIN memo \/ memo[key] = val, info)
MemoPut(mm, key, val) == IF key \in DOMAIN mm THEN mm ELSE mm @@ (key :> val)
MemoSet(mm, key, val) == [k \in DOMAIN mm \cup {key} |-> IF k = key THEN val ELSE mm[k]]
MemoDel(mm, key) == [k \in DOMAIN mm \ {key} |-> mm[k]]
\* what getOptimalSpline() exposes, without the address: NoneExposed for no spline or an uninitialised one
NoneExposed == [has |-> FALSE]           \* (a record, so that TLC can compare it with the other case)
Exposed(o) == IF o.null THEN NoneExposed ELSE IF ~o.init THEN NoneExposed
              ELSE [has |-> TRUE, tsegs |-> o.tsegs, pts |-> o.pts, gbc |-> o.gbc, start |-> o.start, coef |-> o.coef]
ExpKey(id) == <<"exposed", id>>
WorstOf(seq0) == LET seq == Force(seq0)
                     F[i \in 0..Len(seq)] == IF i = 0 THEN <<Zero, 0>> ELSE LET p == F[i - 1] IN IF RLt(p[1], seq[i]) THEN <<seq[i], i>> ELSE p
                 IN F[Len(seq)]

IsEvent(k) == l <= Len(Tr) /\ Tr[l].e = k
Ev == Tr[l]
Advance == l' = l + 1
Record ==
    /\ bad' = bad \o Devs(sc'.cands, Ev)
    /\ worst' = UpdWorst(worst, sc'.cands)
    /\ stats' = Bump(BumpAll(stats, sc'.st), "judgements", Len(sc'.cands))
    /\ memo' = sc'.memo
    /\ cfgs' = sc'.cfgs
    /\ mstate' = sc'.mstate
    /\ UNCHANGED nexec
    /\ Advance
StepRec(cands, st) == [cands |-> cands, st |-> st, memo |-> memo, cfgs |-> cfgs, mstate |-> mstate]
With(f, id, val) == [i \in DOMAIN f \cup {id} |-> IF i = id THEN val ELSE f[i]]

(* ------------------------- concrete configuration --------------------- *)
SOf(order) == (order + 1) \div 2
NewCfg(ev) == [order |-> ev.order, dim |-> ev.dim, tmk |-> ev.tm, smk |-> ev.sm, stored |-> FALSE, valid |-> FALSE,
               flags |-> <<FALSE, FALSE, FALSE, FALSE, FALSE, FALSE, FALSE, FALSE>>, rho |-> Zero, K |-> 64, ref |-> <<>>, refh |-> <<>>]
\* the maps an optimizer currently uses, from the OptObj references and the user maps' current state
TMapOf(id) == LET r == opts[id].tref
              IN IF "own" \in DOMAIN r THEN (IF cfgs[id].tmk = "quad" THEN [kind |-> "quad"] ELSE [kind |-> "sq", scale |-> One])
                 ELSE [kind |-> "sq", scale |-> mstate[r.user].tval]
SMapOf(id) == LET r == opts[id].sref
              IN IF "own" \in DOMAIN r THEN (IF cfgs[id].smk = "id" THEN [kind |-> "id"] ELSE [kind |-> "lift", gain |-> "1/4", pin |-> -1])
                 ELSE [kind |-> "lift", gain |-> mstate[r.user].sval, pin |-> mstate[r.user].spin]
MathCfg(id) ==
    LET c == cfgs[id]
    IN [s |-> SOf(c.order), D |-> c.dim, t0 |-> c.ref.t0, T |-> c.ref.T, P |-> c.ref.P, BS |-> c.ref.BS, BE |-> c.ref.BE,
        flags |-> c.flags, rho |-> c.rho, K |-> c.K, tm |-> TMapOf(id), sm |-> SMapOf(id)]
CpOf(ev) ==
    LET j == IF Has(ev, "costs") THEN ev.costs ELSE << >>
        f(k) == IF k \in DOMAIN j THEN H(j[k]) ELSE Zero
        g(k) == IF k \in DOMAIN j THEN j[k] ELSE 0
    IN [ta |-> f("ta"), tb |-> f("tb"), tc |-> f("tc"), ww |-> f("ww"), wc0 |-> f("wc0"), ap |-> f("ap"), av |-> f("av"), aa |-> f("aa"),
        aj |-> f("aj"), as |-> f("as"), beta |-> f("beta"), gamma |-> f("gamma"), delta |-> f("delta"), eps |-> f("eps"),
        lie |-> f("lie"), lie_which |-> g("lie_which"), lie_i |-> g("lie_i"), lie_c |-> g("lie_c")]

(* ----------------------------- verdicts (C16) -------------------------- *)
\* exact durations a setInitState call denotes (the time-point overload subtracts in double: correctly rounded)
ClassOf(x) == RHexClass(x)
DurHex(ev) ==          \* per duration: "fin" with its value, or a non-finite class
    IF ev.how = "durs" THEN [i \in 1..Len(ev.T) |-> [cls |-> ClassOf(ev.T[i]), val |-> IF RIsFiniteHex(ev.T[i]) THEN H(ev.T[i]) ELSE Zero]]
    ELSE [i \in 1..(Len(ev.tp) - 1) |->
            LET a == ev.tp[i]  b == ev.tp[i + 1]
            IN IF RIsFiniteHex(a) /\ RIsFiniteHex(b) THEN [cls |-> "fin", val |-> RNearest(RSub(H(b), H(a)))]
               ELSE [cls |-> "nonfin", val |-> Zero]]
Valid(ev, order) ==
    LET s == SOf(order)
        N == IF ev.how = "durs" THEN Len(ev.T) ELSE Len(ev.tp) - 1
        du == DurHex(ev)
        t0 == IF ev.how = "durs" THEN ev.t0 ELSE ev.tp[1]
        names == <<"v", "a", "j">>
    IN /\ N >= 1
       /\ Len(ev.P) = N + 1
       /\ RIsFiniteHex(t0)
       /\ \A i \in 1..N : du[i].cls = "fin" /\ RLe(MinDur, du[i].val)
       /\ FinM(ev.P)
       /\ \A d \in 1..(s - 1) : FinV(ev.bc["s" \o names[d]]) /\ FinV(ev.bc["e" \o names[d]])
\* has_error is read before, has_error_after after the checkValidity() calls of the same observation (checkValidity stores a message
\* when the state is invalid).  A brand-new optimizer has no initialisation result to explain yet: judgeMsg = FALSE there.
VerdictCandsM(tag, out, want, judgeCheck, judgeMsg, info) ==
    <<Cand("C16", tag \o ".is_valid", out.is_valid = want /\ out.as_bool = want, info),
      Cand("C16", tag \o ".message", judgeMsg => out.has_error = ~want, info),
      Cand("C16", tag \o ".message_after_check", out.has_error_after = ~want, info)>>
    \o (IF judgeCheck THEN <<Cand("C16", tag \o ".check_validity", out.check_validity = want /\ out.check_validity_nomsg = want
                                                                 /\ out.check_msg_empty = want, info)>> ELSE <<>>)

VerdictCands(tag, out, want, judgeCheck, info) == VerdictCandsM(tag, out, want, judgeCheck, TRUE, info)

SetInitStep(ev) ==
    LET c == cfgs[ev.obj]
        emptyTp == ev.how = "pts" /\ Len(ev.tp) = 0
        want == IF emptyTp THEN FALSE ELSE Valid(ev, c.order)
        s == SOf(c.order)
        names == <<"v", "a", "j">>
        info == [order |-> c.order, dim |-> c.dim, how |-> ev.how, want |-> want]
        N == IF ev.how = "durs" THEN Len(ev.T) ELSE Len(ev.tp) - 1
        ref == IF want THEN [T |-> [i \in 1..N |-> DurHex(ev)[i].val], P |-> HM(ev.P), t0 |-> H(IF ev.how = "durs" THEN ev.t0 ELSE ev.tp[1]),
                             BS |-> [d \in 1..(s - 1) |-> HV(ev.bc["s" \o names[d]])], BE |-> [d \in 1..(s - 1) |-> HV(ev.bc["e" \o names[d]])]]
               ELSE <<>>
        refh == IF want THEN [P |-> ev.P, bc |-> ev.bc, t0 |-> IF ev.how = "durs" THEN ev.t0 ELSE ev.tp[1]] ELSE <<>>
        cands == <<Cand("C16", "setinit.ret", ev.out.ret = want, info)>> \o VerdictCands("setinit", ev.out, want, ~emptyTp, info)
        c2 == IF emptyTp THEN [c EXCEPT !.valid = FALSE] ELSE [c EXCEPT !.stored = TRUE, !.valid = want, !.ref = ref, !.refh = refh]
    IN Force([StepRec(cands, <<"set_inits", IF want THEN "set_inits_valid" ELSE "set_inits_invalid">>) EXCEPT !.cfgs = With(cfgs, ev.obj, c2)]
             @@ [n |-> IF emptyTp THEN 0 ELSE N, valid |-> want, stored |-> ~emptyTp])
TrSetInit == IsEvent("set_init") /\ sc' = SetInitStep(Ev)
             /\ OSetInit(Ev.obj, l, sc'.n, sc'.valid, sc'.stored) /\ Record

NewStep(ev) == Force([StepRec(VerdictCandsM("new", ev.out, FALSE, FALSE, FALSE, [order |-> ev.order]), <<"optimizers">>) EXCEPT !.cfgs = With(cfgs, ev.obj, NewCfg(ev)), !.memo = MemoSet(memo, ExpKey(ev.obj), NoneExposed)])
TrNew == IsEvent("opt_new") /\ sc' = NewStep(Ev) /\ ONew(Ev.obj) /\ Record
TrVerdict == IsEvent("verdict") /\ sc' = Force(StepRec(VerdictCands("verdict", Ev.out, cfgs[Ev.obj].valid, FALSE, << >>), <<"verdicts">>))
             /\ UNCHANGED <<opts, umaps, nextWs>> /\ Record

SetCfg(id, f, v) == With(cfgs, id, [cfgs[id] EXCEPT ![f] = v])
TrSetFlags == IsEvent("set_flags") /\ sc' = Force([StepRec(<<>>, <<"setters">>) EXCEPT !.cfgs = SetCfg(Ev.obj, "flags", Ev.flags)])
              /\ OSetFlags(Ev.obj, Ev.flags) /\ Record
TrSetEnergy == IsEvent("set_energy") /\ sc' = Force([StepRec(<<>>, <<"setters">>) EXCEPT !.cfgs = SetCfg(Ev.obj, "rho", H(Ev.rho))])
               /\ OSetOther(Ev.obj) /\ Record
TrSetSteps == IsEvent("set_steps") /\ sc' = Force([StepRec(<<>>, <<"setters">>) EXCEPT !.cfgs = SetCfg(Ev.obj, "K", Ev.K)])
              /\ OSetOther(Ev.obj) /\ Record
MapId(ev) == ev.map       \* 0 stands for nullptr: back to the default map
\* user maps only exist for the families instantiated with a user map type; for the others set*Map(nullptr) is all there is
TrSetTMap == IsEvent("set_tmap") /\ sc' = Force(StepRec(<<>>, <<"setters">>))
             /\ OSetTMap(Ev.obj, IF cfgs[Ev.obj].tmk = "sq" THEN MapId(Ev) ELSE 0) /\ Record
TrSetSMap == IsEvent("set_smap") /\ sc' = Force(StepRec(<<>>, <<"setters">>))
             /\ OSetSMap(Ev.obj, IF cfgs[Ev.obj].smk = "lift" THEN MapId(Ev) ELSE 0) /\ Record
\* user maps: ids of time maps and spatial maps share one name space in the scripts
MapWith(m, f, v) == With(mstate, m, (IF m \in DOMAIN mstate THEN [g \in DOMAIN mstate[m] \ {f} |-> mstate[m][g]] ELSE << >>) @@ (f :> v))
MapWith2(m, f, v, f2, v2) == With(mstate, m, (IF m \in DOMAIN mstate THEN [g \in DOMAIN mstate[m] \ {f, f2} |-> mstate[m][g]] ELSE << >>) @@ (f :> v) @@ (f2 :> v2))
TrMapNew == (IsEvent("tmap_new") \/ IsEvent("smap_new"))
            /\ sc' = Force([StepRec(<<>>, <<"maps">>) EXCEPT !.mstate = IF Ev.e = "tmap_new" THEN MapWith(Ev.map, "tval", H(Ev.scale)) ELSE MapWith2(Ev.map, "sval", H(Ev.gain), "spin", IF Has(Ev, "pin") THEN Ev.pin ELSE -1)])
            /\ MapNew(Ev.map) /\ Record
TrMapSet == (IsEvent("tmap_set") \/ IsEvent("smap_set"))
            /\ sc' = Force([StepRec(<<>>, <<"map_mutations">>) EXCEPT !.mstate = IF Ev.e = "tmap_set" THEN MapWith(Ev.map, "tval", H(Ev.scale)) ELSE MapWith(Ev.map, "sval", H(Ev.gain))])
            /\ MapMutate(Ev.map) /\ Record

(* -------------------- layout, dimension, initial guess (C09) ----------- *)
DimStep(ev) ==
    LET c == cfgs[ev.obj]
        want == IF c.stored THEN Dimension(MathCfg(ev.obj)) ELSE 0
    IN IF c.stored /\ ~c.valid THEN Force(StepRec(<<>>, <<"dimension_queries_on_rejected_problem">>))     \* not specified by C09
       ELSE Force(StepRec(<<Cand("C09", "dimension", ev.out.dim = want, [order |-> c.order, dim |-> c.dim, want |-> want, got |-> ev.out.dim, flags |-> c.flags])>>,
                          <<"dimension_queries">>))
TrGetDim == IsEvent("get_dim") /\ sc' = DimStep(Ev) /\ OReadLayout(Ev.obj) /\ Record

\* the initial guess decodes back to the reference problem: pinned / spatial / derivative entries exactly, durations through the time map
GuessStep(ev) ==
    LET c == cfgs[ev.obj]
        mc == MathCfg(ev.obj)
        N == NOf(mc)
        lay == Layout(mc)
        x == ev.out.x
        info == [order |-> c.order, dim |-> c.dim, N |-> N, flags |-> c.flags, smap |-> mc.sm.kind]
        okshape == Len(x) = lay.total /\ FinV(x) /\ ev.out.dim = lay.total
        xr == HV(x)
        tails == SubSeq(xr, N + 1, Len(xr))
        want == InitialGuess(mc, SubSeq(xr, 1, N))
        wt == WorstOf([i \in 1..N |-> RDiv(RAbs(RSub(TMapVal(mc.tm, xr[i]), mc.T[i])), mc.T[i])])
        \* the round trip presupposes that the reference lies in the range of the maps in use (the user maps of the harness are
        \* not onto: the reduced-dof spatial map, and the time map T = scale (tau^2 + 1) >= scale)
        inRange == /\ \A j \in 1..(N + 1) : SMapVal(mc, SMapInv(mc, mc.P[j], j - 1), j - 1) = mc.P[j]
                   /\ (mc.tm.kind = "sq" => \A i \in 1..N : RLe(mc.tm.scale, mc.T[i]))
        cands == IF ~inRange THEN <<>>
                 ELSE IF ~okshape THEN <<Cand("C09", "guess.shape", FALSE, info)>>
                 ELSE <<CandM("C09", "guess.durations", wt[1], Tol9, info),
                        Cand("C09", "guess.exact_part", tails = SubSeq(want, N + 1, Len(want)), info),
                        Cand("C09", "guess.decodes_to_reference",
                             LET pr == Decode(mc, want) IN pr.P = mc.P /\ pr.BS = mc.BS /\ pr.BE = mc.BE, info)>>
    IN Force(StepRec(cands, <<IF inRange THEN "initial_guesses" ELSE "initial_guesses_outside_map_range">>))
TrGuess == IsEvent("init_guess") /\ sc' = GuessStep(Ev) /\ OReadLayout(Ev.obj) /\ Record

(* ------------------------------ evaluate ------------------------------ *)
\* decode judged on the workspace spline (C09): durations through the time map, waypoints through the spatial map,
\* boundary blocks copied; unflagged quantities carry the reference bits
DecodeCands(prop, mc, c, x, sp, info) ==
    LET pr == Force(Decode(mc, HV(x)))
        N == NSeg(pr)  s == pr.s
        names == <<"v", "a", "j">>
        relv(g, w) == RLe(RAbs(RSub(g, w)), RAdd(RMul(Tol13, RAbs(w)), RPow("10", -290)))
        lay == Layout(mc)
        pinnedPt(idx) == ~(\E q \in 1..Len(lay.points) : lay.points[q].idx = idx)
        blkOn(side, d) == \E q \in 1..Len(lay.blocks) : lay.blocks[q].side = side /\ lay.blocks[q].d = d
    IN IF sp.null \/ ~sp.init \/ Len(sp.tsegs) # N \/ Len(sp.pts) # N + 1
       THEN <<Cand(prop, "decode.shape", FALSE, info)>>
       ELSE <<Cand(prop, "decode.durations", \A i \in 1..N : relv(H(sp.tsegs[i]), pr.T[i]), info),
              \* (a mapped waypoint is assembled from the point's variables: judged relative to the largest of them, not to a result that may cancel)
              Cand(prop, "decode.waypoints", \A j \in 1..(N + 1) : \A col \in 1..mc.D :
                       RLe(RAbs(RSub(H(sp.pts[j][col]), pr.P[j][col])), RAdd(RMul(Tol13, RMax(RMaxSeq([c2 \in 1..mc.D |-> RAbs(pr.P[j][c2])]), RInt(j))), RPow("10", -290))), info),
              Cand(prop, "decode.pinned_points", \A j \in 1..(N + 1) : pinnedPt(j - 1) => sp.pts[j] = c.refh.P[j], info),
              Cand(prop, "decode.start_time", sp.start = c.refh.t0, info),
              Cand(prop, "decode.boundary",
                   \A d \in 1..(s - 1) : /\ HV(sp.gbc["s" \o names[d]]) = pr.BS[d] /\ HV(sp.gbc["e" \o names[d]]) = pr.BE[d]
                                         /\ (~blkOn("s", d) => sp.gbc["s" \o names[d]] = c.refh.bc["s" \o names[d]])
                                         /\ (~blkOn("e", d) => sp.gbc["e" \o names[d]] = c.refh.bc["e" \o names[d]]), info)>>

\* Scale of each gradient component: errors of an adjoint solve are norm-wise, so a component is judged relative to the
\* largest component of its class - the time variables among themselves; the spatial variables and the boundary-derivative
\* blocks together, after conversion to common units (the gradient w.r.t. a d-th derivative boundary value is a gradient
\* w.r.t. a position times duration^d).  A component that vanishes by cancellation is thereby judged against its peers.
GradCands(mc, gr, got, info) ==
    LET g == gr.grad
        N == NOf(mc)  lay == Layout(mc)  n == Len(g)
        Tc == RMaxSeq(gr.pr.T)
        dOf(q) == IF q <= lay.doff THEN 0 ELSE lay.blocks[((q - lay.doff - 1) \div mc.D) + 1].d
        \* floors for a class whose exact gradient vanishes altogether (the cost does not depend on it) while the implementation's
        \* is rounding noise of the terms it is assembled from: 1e-6 of (cost magnitude / natural unit of the variable)
        pmax == RMax(One, RMaxSeq([j \in 1..Len(gr.pr.P) |-> RMaxSeq([c \in 1..mc.D |-> RAbs(gr.pr.P[j][c])])]))
        fl0 == RMul(RPow("10", -6), RDiv(gr.abs, pmax))
        flT == RMul(RPow("10", -6), RDiv(gr.abs, Tc))
        gtime == RMax(RMaxSeq([q \in 1..N |-> RAbs(g[q])]), flT)
        g0 == RMax(RMaxSeq([q \in 1..n |-> IF q <= N THEN Zero ELSE RDiv(RAbs(g[q]), RPow(Tc, dOf(q)))]), fl0)
        scale(q) == IF q <= N THEN gtime ELSE RMul(g0, RPow(Tc, dOf(q)))
        w == WorstOf([q \in 1..n |-> RDiv(RAbs(RSub(H(got[q]), g[q])), RAdd(RMul(Tol6, scale(q)), RPow("10", -250)))])
    IN IF Len(got) # n THEN <<Cand("C07", "grad.length", FALSE, info @@ [got |-> Len(got), n |-> n])>>     \* whatever the caller's vector held before
       ELSE <<CandM("C07", "grad.value", w[1], One, info @@ [at |-> w[2], n |-> n])>>

\* samples handed to the running cost (C08): index, local and global time, state; count and multiset
SampleCands(mc, parts, samples, info) ==
    LET pr == parts.pr  K == mc.K  N == NSeg(pr)  D == mc.D
        ps == Force([col \in 1..D |-> PScale(pr, col)])
        Tmin == LET F[i \in 0..N] == IF i = 0 THEN pr.T[1] ELSE RMin(F[i - 1], pr.T[i]) IN F[N]
        kOf(sm) == RToInt(RFloor(RAdd(RDiv(RMul(H(sm.t), RInt(K)), pr.T[sm.i + 1]), "1/2")))
        one(sm) ==
            LET i == sm.i + 1
                k == kOf(sm)
                ex == SampleOf(pr, parts.C, K, i, IF k < 0 THEN 0 ELSE IF k > K THEN K ELSE k)
                big == RMax(RMax(RAbs(ex.tg), RAbs(pr.t0)), RPow("10", -280))
                okv(got, want, d) == \A col \in 1..D : RLe(RAbs(RSub(H(got[col]), want[col])), RAdd(RMul(Tol6, RMax(RAbs(want[col]), RDiv(ps[col], RPow(Tmin, d)))), RPow("10", -250)))
            IN /\ sm.i >= 0 /\ sm.i < N /\ k >= 0 /\ k <= K
               /\ RLe(RAbs(RSub(H(sm.t), ex.t)), RMul(RMul("4", Eps), RMax(ex.t, RPow("10", -280))))
               /\ RLe(RAbs(RSub(H(sm.tg), ex.tg)), RMul(RMul(RInt(4 * N + 4), Eps), big))
               /\ okv(sm.p, ex.p, 0) /\ okv(sm.v, ex.v, 1) /\ okv(sm.a, ex.a, 2) /\ okv(sm.j, ex.j, 3) /\ okv(sm.s, ex.s, 4)
        keys == {<<samples[q].i, kOf(samples[q])>> : q \in 1..Len(samples)}
    IN <<Cand("C08", "samples.count", Len(samples) = N * (K + 1), info @@ [got |-> Len(samples), want |-> N * (K + 1)]),
         Cand("C08", "samples.each_once", Cardinality(keys) = Len(samples), info),
         Cand("C08", "samples.content", \A q \in 1..Len(samples) : one(samples[q]), info)>>

EvalKey(id, ev) == <<"evaluate", cfgs[id], TMapOf(id), SMapOf(id), ev.x, IF Has(ev, "costs") THEN ev.costs ELSE << >>, IF Has(ev, "overload") THEN ev.overload ELSE 3>>
OwnWs(ev) == ~Has(ev, "ws") \/ ev.ws = 0      \* 0 = the built-in workspace
EvaluateStep(ev) ==
    LET c == cfgs[ev.obj]
        mc == Force(MathCfg(ev.obj))
        cp == CpOf(ev)
        three == ~(Has(ev, "overload") /\ ev.overload = 2)
        info == [order |-> c.order, dim |-> c.dim, N |-> NOf(mc), flags |-> c.flags, K |-> c.K, tm |-> mc.tm.kind, sm |-> mc.sm.kind,
                 exec |-> IF Has(ev, "exec") THEN ev.exec.kind ELSE "serial"]
        okshape == ~Has(ev, "exception") /\ Len(ev.x) = Dimension(mc) /\ RIsFiniteHex(ev.out.cost) /\ FinV(ev.out.grad) /\ Len(ev.out.grad) = Len(ev.x)
        key == EvalKey(ev.obj, ev)
        val == [cost |-> ev.out.cost, grad |-> ev.out.grad]
        exact == "VJ_EXACT" \notin DOMAIN IOEnv \/ IOEnv.VJ_EXACT # "0"
        g == Force(IF okshape /\ exact THEN Grad(mc, cp, HV(ev.x), three) ELSE <<>>)
        cands == IF ~okshape THEN <<Cand("C07", "evaluate.shape", FALSE, info)>>
                 ELSE (IF exact THEN <<CandM("C08", "cost.value", RAbs(RSub(H(ev.out.cost), g.cost)), RAdd(RMul(Tol6, g.abs), RPow("10", -250)), info)>>
                                     \o GradCands(mc, g, ev.out.grad, info)
                                     \o (IF Has(ev.out, "samples") THEN SampleCands(mc, g, ev.out.samples, info) ELSE <<>>)
                       ELSE <<>>)
                      \o DecodeCands("C09", mc, c, ev.x, ev.out.spline, info)
                      \o <<MemoCand("C12", "evaluate.bits", key, val, info),
                           Cand("C09", "optimal_spline", OwnWs(ev) => ~ev.out.optimal.null /\ ev.out.optimal = ev.out.spline, info),
                           \* an evaluation with an external workspace leaves the exposed spline as the last built-in evaluation (or copy) left it
                           Cand("C09", "optimal.kept_by_external_evaluation",
                                OwnWs(ev) \/ ExpKey(ev.obj) \notin DOMAIN memo \/ Exposed(ev.out.optimal) = memo[ExpKey(ev.obj)], info)>>
        m1 == MemoPut(memo, key, val)
        m2 == IF OwnWs(ev) /\ okshape THEN MemoSet(m1, ExpKey(ev.obj), Exposed(ev.out.optimal)) ELSE m1
    IN Force([StepRec(cands, <<"evaluations", IF exact THEN "evaluations_exact" ELSE "evaluations_memo_only">>) EXCEPT !.memo = m2])
TrEvaluate == IsEvent("evaluate") /\ sc' = EvaluateStep(Ev) /\ OEvaluate(Ev.obj, OwnWs(Ev)) /\ Record

\* concurrent evaluations on one optimizer, one workspace per thread (C12): exactly the values the same calls return one after another
EvalMtStep(ev) ==
    LET c == cfgs[ev.obj]
        info == [order |-> c.order, dim |-> c.dim, threads |-> Len(ev.xs)]
        keyOf(t) == <<"evaluate", cfgs[ev.obj], TMapOf(ev.obj), SMapOf(ev.obj), ev.xs[t], IF Has(ev, "costs") THEN ev.costs ELSE << >>, IF Has(ev, "overload") THEN ev.overload ELSE 3>>
        valOf(t) == [cost |-> ev.out.results[t].cost, grad |-> ev.out.results[t].grad]
        cands == IF Has(ev, "exception") \/ Len(ev.out.results) # Len(ev.xs) THEN <<Cand("C12", "concurrent.shape", FALSE, info)>>
                 ELSE [t \in 1..Len(ev.xs) |-> Cand("C12", "concurrent.bits", keyOf(t) \in DOMAIN memo /\ memo[keyOf(t)] = valOf(t), info @@ [thread |-> t])]
    IN Force(StepRec(cands, <<"concurrent_evaluations">>))
TrEvalMt == IsEvent("evaluate_mt") /\ sc' = EvalMtStep(Ev) /\ OEvaluate(Ev.obj, FALSE) /\ Record

(* ------------------------- gradient self-check (C19) ------------------- *)
\* rel_error = error_norm / |analytical|: compare squares
RelSq(re, d2, a2) == RLe(RAbs(RSub(RMul(RSq(re), a2), d2)), RAdd(RMul(RPow("10", -10), d2), RPow("10", -300)))
GradCandsP(prop, code, mc, g, got, info) ==
    LET c1 == GradCands(mc, g, got, info) IN [q \in 1..Len(c1) |-> [c1[q] EXCEPT !.prop = prop, !.code = code]]
CheckGradStep(ev) ==
    LET c == cfgs[ev.obj]
        mc == Force(MathCfg(ev.obj))
        cp == CpOf(ev)
        three == ~(Has(ev, "overload") /\ ev.overload = 2)
        x == HV(ev.x)
        n == Len(x)
        eps == IF Has(ev, "eps") THEN H(ev.eps) ELSE RFromHex("0x1.0c6f7a0b5ed8dp-20")      \* 1e-6
        tol == IF Has(ev, "tol") THEN H(ev.tol) ELSE RFromHex("0x1.a36e2eb1c432dp-14")      \* 1e-4
        info == [order |-> c.order, dim |-> c.dim, N |-> NOf(mc), flags |-> c.flags, lie |-> cp.lie_which]
        okshape == ~Has(ev, "exception") /\ n = Dimension(mc) /\ Len(ev.out.analytical) = n /\ Len(ev.out.numerical) = n
                   /\ FinV(ev.out.analytical) /\ FinV(ev.out.numerical)
        g == Force(IF okshape THEN Grad(mc, cp, x, three) ELSE <<>>)                            \* from the CLAIMED partials
        truth == Force(IF okshape THEN Grad(mc, [cp EXCEPT !.lie_which = 0], x, three) ELSE <<>>)
        an == HV(ev.out.analytical)  nu == HV(ev.out.numerical)
        \* the finite differences approximate the TRUE gradient (no lie); they differ from it by the rounding of the two costs
        \* (eps_mach |cost| / eps, bounded generously) and by the truncation error of the central difference (O(eps^2), negligible)
        numtol == RAdd(RMul(RMul("4096", Eps), RDiv(g.abs, eps)), RPow("10", -200))
        gscale == RMaxSeq([q \in 1..n |-> RAbs(truth.grad[q])])
        wn == WorstOf([q \in 1..n |-> RDiv(RAbs(RSub(nu[q], truth.grad[q])), RAdd(numtol, RMul(RPow("10", -5), gscale)))])
        d2 == RSum([q \in 1..n |-> RSq(RSub(an[q], nu[q]))])
        a2 == RSum([q \in 1..n |-> RSq(an[q])])
        en == H(ev.out.error_norm)
        re == H(ev.out.rel_error)
        sqclose(v, sq) == RLe(RAbs(RSub(RSq(v), sq)), RAdd(RMul(RPow("10", -12), sq), RPow("10", -300)))
        \* expected verdict from exact quantities: analytic (claimed) gradient vs true gradient
        e2 == RSum([q \in 1..n |-> RSq(RSub(g.grad[q], truth.grad[q]))])
        farAbove == RLt(RMul("100", RSq(tol)), e2)                   \* wrong by more than 10 x tolerance
        noiseOK == RLt(RMul(RMul(RInt(n), "100"), RSq(numtol)), RSq(tol))   \* finite-difference noise at least 10 x below the tolerance
        exactRight == e2 = Zero
        cands == IF ~okshape THEN <<Cand("C19", "check.shape", FALSE, info)>>
                 ELSE GradCandsP("C19", "check.analytical", mc, g, ev.out.analytical, info)
                      \o <<CandM("C19", "check.numerical", wn[1], One, info @@ [at |-> wn[2]]),
                           Cand("C19", "check.error_norm", sqclose(en, d2), info),
                           Cand("C19", "check.rel_error", IF RLt(RPow("10", -18), a2) THEN RelSq(re, d2, a2) ELSE sqclose(re, d2), info),
                           Cand("C19", "check.valid_is_norm_below_tol", ev.out.valid = RLt(en, tol) /\ ev.out.report_passed = ev.out.valid, info),
                           Cand("C19", "check.verdict_wrong_functor", (farAbove /\ noiseOK) => ~ev.out.valid, info @@ [e2 |-> RShow(e2)]),
                           Cand("C19", "check.verdict_right_functor", (exactRight /\ noiseOK) => ev.out.valid, info)>>
                      \o DecodeCands("C19", mc, c, ev.x, ev.out.spline, info)
    IN Force([StepRec(cands, <<"gradient_checks", IF okshape /\ farAbove /\ noiseOK THEN "checks_with_detectable_lie"
                                                  ELSE IF okshape /\ exactRight /\ noiseOK THEN "checks_with_correct_functor" ELSE "checks_indeterminate">>)
              EXCEPT !.memo = MemoDel(memo, ExpKey(ev.obj))])      \* (what the self-check leaves exposed is judged by DecodeCands above)
TrCheckGrad == IsEvent("check_grad") /\ sc' = CheckGradStep(Ev) /\ OEvaluate(Ev.obj, OwnWs(Ev)) /\ Record

(* --------------------------- copies, lifetime (C15) -------------------- *)
\* a copy / an assigned optimizer exposes what its source exposes (a deep copy of the built-in workspace, or none)
CopyStep(ev) == Force([StepRec(<<>>, <<"copies">>) EXCEPT !.cfgs = With(cfgs, ev.dst, cfgs[ev.src]),
                          !.memo = IF ev.dst = ev.src THEN memo
                                   ELSE IF ExpKey(ev.src) \in DOMAIN memo THEN MemoSet(memo, ExpKey(ev.dst), memo[ExpKey(ev.src)])
                                   ELSE MemoDel(memo, ExpKey(ev.dst))])
TrCopy == (IsEvent("opt_copy") \/ IsEvent("opt_assign")) /\ sc' = CopyStep(Ev) /\ OCopy(Ev.dst, Ev.src) /\ Record
TrDestroy == IsEvent("opt_destroy") /\ sc' = Force([StepRec(<<>>, <<"destroys">>) EXCEPT !.cfgs = [i \in DOMAIN cfgs \ {Ev.obj} |-> cfgs[i]], !.memo = MemoDel(memo, ExpKey(Ev.obj))])
             /\ ODestroy(Ev.obj) /\ Record
\* distinct live optimizers never expose the same built-in workspace
OptimalStep(ev) ==
    LET addr == IF ev.out.optimal.null THEN 0 ELSE ev.out.optimal.addr
        key == <<"wsaddr", ev.obj>>
        others == {memo[k] : k \in {k2 \in DOMAIN memo : k2[1] = "wsaddr" /\ k2[2] # ev.obj /\ k2[2] \in OLive}}
        cands == <<Cand("C15", "workspace.not_shared", addr = 0 \/ addr \notin others, [obj |-> ev.obj, addr |-> addr]),
                   \* (whether an unused optimizer already has a built-in workspace is an implementation choice: only "used => exists" is required)
                   Cand("C15", "workspace.exists_once_used", opts[ev.obj].ws # 0 => ~ev.out.optimal.null, [obj |-> ev.obj]),
                   \* the exposed spline is the one of the last built-in evaluation of this optimizer, or of its source at the time of the copy
                   Cand("C15", "optimal.content", ExpKey(ev.obj) \notin DOMAIN memo \/ Exposed(ev.out.optimal) = memo[ExpKey(ev.obj)], [obj |-> ev.obj])>>
    IN Force([StepRec(cands, <<"optimal_queries">>) EXCEPT !.memo = [k \in DOMAIN memo \cup {key} |-> IF k = key THEN addr ELSE memo[k]]])
TrOptimal == IsEvent("get_optimal") /\ sc' = OptimalStep(Ev) /\ UNCHANGED <<opts, umaps, nextWs>> /\ Record

TrReset ==
    /\ IsEvent("reset") /\ OReset
    /\ memo' = (IF "VJ_KEEPMEMO" \in DOMAIN IOEnv /\ IOEnv.VJ_KEEPMEMO = "1" THEN [k \in {k2 \in DOMAIN memo : k2[1] # "wsaddr" /\ k2[1] # "exposed"} |-> memo[k]] ELSE << >>)
    /\ cfgs' = << >> /\ mstate' = << >> /\ nexec' = nexec + 1 /\ stats' = Bump(stats, "executions", 1) /\ sc' = << >>
    /\ UNCHANGED <<bad, worst>> /\ Advance
TrNote == (IsEvent("note") \/ IsEvent("ws_destroy")) /\ sc' = Force(StepRec(<<>>, <<"notes">>)) /\ UNCHANGED <<opts, umaps, nextWs>> /\ Record
Known == {"evaluate_mt", "opt_new", "set_init", "verdict", "set_flags", "set_energy", "set_steps", "set_tmap", "set_smap", "tmap_new", "smap_new", "tmap_set",
          "smap_set", "get_dim", "init_guess", "evaluate", "check_grad", "opt_copy", "opt_assign", "opt_destroy", "get_optimal", "reset",
          "note", "ws_destroy"}
TrUnknown ==
    /\ l <= Len(Tr) /\ Tr[l].e \notin Known
    /\ bad' = bad \o <<[prop |-> "INFRA", code |-> "unknown.event", info |-> [e |-> Tr[l].e], line |-> l, exec |-> nexec, obj |-> 0]>>
    /\ UNCHANGED <<stats, worst, memo, nexec, sc, cfgs, mstate, opts, umaps, nextWs>> /\ Advance

TraceInit == l = 1 /\ bad = <<>> /\ stats = [lines |-> Len(Tr)] /\ worst = << >> /\ memo = << >> /\ nexec = 0 /\ sc = << >>
             /\ cfgs = << >> /\ mstate = << >> /\ OptInit
TraceNext == TrEvalMt \/ TrSetInit \/ TrNew \/ TrVerdict \/ TrSetFlags \/ TrSetEnergy \/ TrSetSteps \/ TrSetTMap \/ TrSetSMap \/ TrMapNew \/ TrMapSet
             \/ TrGetDim \/ TrGuess \/ TrEvaluate \/ TrCheckGrad \/ TrCopy \/ TrDestroy \/ TrOptimal \/ TrReset \/ TrNote \/ TrUnknown
TraceSpec == TraceInit /\ [][TraceNext]_tvars
TraceInv == OptObjInv
Done == l = Len(Tr) + 1
Emit == Done => JsonSerialize(IOEnv.OUT, [bad |-> bad, stats |-> stats, lines |-> Len(Tr), worst |-> [k \in DOMAIN worst |-> RShow(worst[k])]])
TraceAccepted == TLCGet("stats").diameter - 1 = Len(Tr)
=============================================================================
