---- MODULE OptConcurrent_TTrace_1790572411 ----
EXTENDS OptConcurrent, Sequences, TLCExt, Toolbox, Naturals, TLC

_expression ==
    LET OptConcurrent_TEExpression == INSTANCE OptConcurrent_TEExpression
    IN OptConcurrent_TEExpression!expression
----

_trace ==
    LET OptConcurrent_TETrace == INSTANCE OptConcurrent_TETrace
    IN OptConcurrent_TETrace!trace
----

_inv ==
    ~(
        TLCGet("level") = Len(_TETrace)
        /\
        dirty = (TRUE)
        /\
        acc = ({[hb |-> {}, seq |-> 0, loc |-> <<"dirty">>, kind |-> "r", th |-> <<1, 0>>, held |-> FALSE], [hb |-> {}, seq |-> 1, loc |-> <<"dirty">>, kind |-> "r", th |-> <<2, 0>>, held |-> FALSE], [hb |-> {}, seq |-> 2, loc |-> <<"vec">>, kind |-> "w", th |-> <<1, 0>>, held |-> FALSE], [hb |-> {}, seq |-> 3, loc |-> <<"vec">>, kind |-> "w", th |-> <<2, 0>>, held |-> FALSE]})
        /\
        pending = (<<1..1, 1..1>>)
        /\
        k = (<<1, 1>>)
        /\
        slots = (<<{}, {}>>)
        /\
        pc = (<<"push", "push">>)
        /\
        vec = (<<>>)
        /\
        lock = (0)
        /\
        decoded = (<<<<>>, <<>>>>)
        /\
        hb = (<<{}, {}>>)
        /\
        pub = ({})
        /\
        seq = (4)
        /\
        order = (<<<<>>, <<>>>>)
    )
----

_init ==
    /\ seq = _TETrace[1].seq
    /\ dirty = _TETrace[1].dirty
    /\ slots = _TETrace[1].slots
    /\ k = _TETrace[1].k
    /\ pc = _TETrace[1].pc
    /\ lock = _TETrace[1].lock
    /\ decoded = _TETrace[1].decoded
    /\ pending = _TETrace[1].pending
    /\ vec = _TETrace[1].vec
    /\ acc = _TETrace[1].acc
    /\ hb = _TETrace[1].hb
    /\ pub = _TETrace[1].pub
    /\ order = _TETrace[1].order
----

_next ==
    /\ \E i,j \in DOMAIN _TETrace:
        /\ \/ /\ j = i + 1
              /\ i = TLCGet("level")
        /\ seq  = _TETrace[i].seq
        /\ seq' = _TETrace[j].seq
        /\ dirty  = _TETrace[i].dirty
        /\ dirty' = _TETrace[j].dirty
        /\ slots  = _TETrace[i].slots
        /\ slots' = _TETrace[j].slots
        /\ k  = _TETrace[i].k
        /\ k' = _TETrace[j].k
        /\ pc  = _TETrace[i].pc
        /\ pc' = _TETrace[j].pc
        /\ lock  = _TETrace[i].lock
        /\ lock' = _TETrace[j].lock
        /\ decoded  = _TETrace[i].decoded
        /\ decoded' = _TETrace[j].decoded
        /\ pending  = _TETrace[i].pending
        /\ pending' = _TETrace[j].pending
        /\ vec  = _TETrace[i].vec
        /\ vec' = _TETrace[j].vec
        /\ acc  = _TETrace[i].acc
        /\ acc' = _TETrace[j].acc
        /\ hb  = _TETrace[i].hb
        /\ hb' = _TETrace[j].hb
        /\ pub  = _TETrace[i].pub
        /\ pub' = _TETrace[j].pub
        /\ order  = _TETrace[i].order
        /\ order' = _TETrace[j].order

\* Uncomment the ASSUME below to write the states of the error trace
\* to the given file in Json format. Note that you can pass any tuple
\* to `JsonSerialize`. For example, a sub-sequence of _TETrace.
    \* ASSUME
    \*     LET J == INSTANCE Json
    \*         IN J!JsonSerialize("OptConcurrent_TTrace_1790572411.json", _TETrace)

=============================================================================

 Note that you can extract this module `OptConcurrent_TEExpression`
  to a dedicated file to reuse `expression` (the module in the 
  dedicated `OptConcurrent_TEExpression.tla` file takes precedence 
  over the module `OptConcurrent_TEExpression` below).

---- MODULE OptConcurrent_TEExpression ----
EXTENDS OptConcurrent, Sequences, TLCExt, Toolbox, Naturals, TLC

expression == 
    [
        \* To hide variables of the `OptConcurrent` spec from the error trace,
        \* remove the variables below.  The trace will be written in the order
        \* of the fields of this record.
        seq |-> seq
        ,dirty |-> dirty
        ,slots |-> slots
        ,k |-> k
        ,pc |-> pc
        ,lock |-> lock
        ,decoded |-> decoded
        ,pending |-> pending
        ,vec |-> vec
        ,acc |-> acc
        ,hb |-> hb
        ,pub |-> pub
        ,order |-> order
        
        \* Put additional constant-, state-, and action-level expressions here:
        \* ,_stateNumber |-> _TEPosition
        \* ,_seqUnchanged |-> seq = seq'
        
        \* Format the `seq` variable as Json value.
        \* ,_seqJson |->
        \*     LET J == INSTANCE Json
        \*     IN J!ToJson(seq)
        
        \* Lastly, you may build expressions over arbitrary sets of states by
        \* leveraging the _TETrace operator.  For example, this is how to
        \* count the number of times a spec variable changed up to the current
        \* state in the trace.
        \* ,_seqModCount |->
        \*     LET F[s \in DOMAIN _TETrace] ==
        \*         IF s = 1 THEN 0
        \*         ELSE IF _TETrace[s].seq # _TETrace[s-1].seq
        \*             THEN 1 + F[s-1] ELSE F[s-1]
        \*     IN F[_TEPosition - 1]
    ]

=============================================================================



Parsing and semantic processing can take forever if the trace below is long.
 In this case, it is advised to uncomment the module below to deserialize the
 trace from a generated binary file.

\*
\*---- MODULE OptConcurrent_TETrace ----
\*EXTENDS OptConcurrent, IOUtils, TLC
\*
\*trace == IODeserialize("OptConcurrent_TTrace_1790572411.bin", TRUE)
\*
\*=============================================================================
\*

---- MODULE OptConcurrent_TETrace ----
EXTENDS OptConcurrent, TLC

trace == 
    <<
    ([dirty |-> TRUE,acc |-> {},pending |-> <<1..1, 1..1>>,k |-> <<0, 0>>,slots |-> <<{}, {}>>,pc |-> <<"check", "check">>,vec |-> <<>>,lock |-> 0,decoded |-> <<<<>>, <<>>>>,hb |-> <<{}, {}>>,pub |-> {},seq |-> 0,order |-> <<<<>>, <<>>>>]),
    ([dirty |-> TRUE,acc |-> {[hb |-> {}, seq |-> 0, loc |-> <<"dirty">>, kind |-> "r", th |-> <<1, 0>>, held |-> FALSE]},pending |-> <<1..1, 1..1>>,k |-> <<0, 0>>,slots |-> <<{}, {}>>,pc |-> <<"clear", "check">>,vec |-> <<>>,lock |-> 0,decoded |-> <<<<>>, <<>>>>,hb |-> <<{}, {}>>,pub |-> {},seq |-> 1,order |-> <<<<>>, <<>>>>]),
    ([dirty |-> TRUE,acc |-> {[hb |-> {}, seq |-> 0, loc |-> <<"dirty">>, kind |-> "r", th |-> <<1, 0>>, held |-> FALSE], [hb |-> {}, seq |-> 1, loc |-> <<"dirty">>, kind |-> "r", th |-> <<2, 0>>, held |-> FALSE]},pending |-> <<1..1, 1..1>>,k |-> <<0, 0>>,slots |-> <<{}, {}>>,pc |-> <<"clear", "clear">>,vec |-> <<>>,lock |-> 0,decoded |-> <<<<>>, <<>>>>,hb |-> <<{}, {}>>,pub |-> {},seq |-> 2,order |-> <<<<>>, <<>>>>]),
    ([dirty |-> TRUE,acc |-> {[hb |-> {}, seq |-> 0, loc |-> <<"dirty">>, kind |-> "r", th |-> <<1, 0>>, held |-> FALSE], [hb |-> {}, seq |-> 1, loc |-> <<"dirty">>, kind |-> "r", th |-> <<2, 0>>, held |-> FALSE], [hb |-> {}, seq |-> 2, loc |-> <<"vec">>, kind |-> "w", th |-> <<1, 0>>, held |-> FALSE]},pending |-> <<1..1, 1..1>>,k |-> <<1, 0>>,slots |-> <<{}, {}>>,pc |-> <<"push", "clear">>,vec |-> <<>>,lock |-> 0,decoded |-> <<<<>>, <<>>>>,hb |-> <<{}, {}>>,pub |-> {},seq |-> 3,order |-> <<<<>>, <<>>>>]),
    ([dirty |-> TRUE,acc |-> {[hb |-> {}, seq |-> 0, loc |-> <<"dirty">>, kind |-> "r", th |-> <<1, 0>>, held |-> FALSE], [hb |-> {}, seq |-> 1, loc |-> <<"dirty">>, kind |-> "r", th |-> <<2, 0>>, held |-> FALSE], [hb |-> {}, seq |-> 2, loc |-> <<"vec">>, kind |-> "w", th |-> <<1, 0>>, held |-> FALSE], [hb |-> {}, seq |-> 3, loc |-> <<"vec">>, kind |-> "w", th |-> <<2, 0>>, held |-> FALSE]},pending |-> <<1..1, 1..1>>,k |-> <<1, 1>>,slots |-> <<{}, {}>>,pc |-> <<"push", "push">>,vec |-> <<>>,lock |-> 0,decoded |-> <<<<>>, <<>>>>,hb |-> <<{}, {}>>,pub |-> {},seq |-> 4,order |-> <<<<>>, <<>>>>])
    >>
----


=============================================================================

---- CONFIG OptConcurrent_TTrace_1790572411 ----
CONSTANTS
    Evals = { 1 , 2 }
    NPoints = 2
    NSegs = 1
    Workers = { 1 }
    Mode = "unlocked"
    Prior = FALSE

INVARIANT
    _inv

CHECK_DEADLOCK
    \* CHECK_DEADLOCK off because of PROPERTY or INVARIANT above.
    FALSE

INIT
    _init

NEXT
    _next

CONSTANT
    _TETrace <- _trace

ALIAS
    _expression
=============================================================================
\* Generated on Mon Sep 28 05:13:32 UTC 2026