------------------------------ MODULE OptConcurrent ------------------------------
(***************************************************************************)
(* Concurrent evaluation on ONE configured optimizer (C12).                *)
(*                                                                         *)
(* Evaluators are threads calling evaluate() const, each with its OWN      *)
(* workspace.  One evaluation is split into the steps at which it touches  *)
(* state that other threads can see:                                       *)
(*   ensure layout : read the dirty bit; if dirty: clear the vector, push  *)
(*                   one entry per optimised point (one step each), write  *)
(*                   offsets/total, clear the dirty bit                    *)
(*   decode        : iterate over the layout vector (one step per entry)   *)
(*   tasks         : the executor runs one task per segment, in any order, *)
(*                   on any of the evaluator's workers; task i writes only *)
(*                   slot i of the evaluator's workspace                   *)
(*   reduce        : serial reductions over the slots, then the result     *)
(*                                                                         *)
(* Mode selects the design being checked:                                  *)
(*   "locked"   the lazy fill is done under a mutex with an atomic dirty   *)
(*              flag (double-checked): the design after the fix            *)
(*   "unlocked" the lazy fill as originally written: plain bool, no lock   *)
(*   "intask"   (broken twin) a reduction is performed inside the tasks    *)
(* Prior = TRUE models a single-threaded call (getDimension, an            *)
(* evaluation, ...) made before the threads start: the cache is clean.     *)
(*                                                                         *)
(* DataRaceFree (latched in `race`, judged at each access against all      *)
(* earlier ones): two accesses to one location by different threads, at    *)
(* least one a write, must be ordered by happens-before: both under the    *)
(* mutex, or the location is the atomic flag, or the write was published   *)
(* (release store of the flag / mutex release) and the reader had observed *)
(* that publication (acquire load / mutex acquire) before reading.         *)
(* Nothing else orders the threads: they all start after the               *)
(* configuration and join at the end.                                      *)
(* ResultIsSerial: every evaluator decodes exactly the layout of the       *)
(* configuration and reduces the slots in index order.                     *)
(***************************************************************************)
EXTENDS Integers, Sequences, FiniteSets, TLC

CONSTANTS Evals,        \* evaluator (thread) ids
          NPoints,      \* number of optimised points = entries of the layout vector
          NSegs,        \* segments = tasks per evaluation
          Workers,      \* worker ids of each evaluator's executor
          Mode, Prior

VARIABLES dirty,        \* the dirty bit
          vec,          \* the layout vector: sequence of point indices pushed so far
          lock,         \* holder of the mutex, or 0
          pc, k,        \* per evaluator: program counter and loop index
          decoded,      \* per evaluator: entries seen by its decode loop
          pending,      \* per evaluator: tasks not yet run
          slots,        \* per evaluator: slots written by its tasks
          order,        \* per evaluator: order in which contributions were added to the result
          acc,          \* history: the SET of accesses made so far [loc, kind "r"/"w", th, held (mutex held?)]
          hb,           \* per evaluator: evaluators whose publication it has observed (acquire side)
          pub,          \* evaluators that have published a completed fill (release side)
          race          \* latched: some access conflicted with an earlier one that does not happen-before it
vars == <<dirty, vec, lock, pc, k, decoded, pending, slots, order, acc, hb, pub, race>>

TrueLayout == [i \in 1..NPoints |-> i]
Th(e, w) == <<e, w>>          \* a thread: evaluator e itself is Th(e, 0); its executor's workers are Th(e, w)
\* Accesses are judged when they are made, against every EARLIER access (all of `acc`): an order-free set suffices as history,
\* so interleavings that differ only in the order of independent accesses merge into one state.
Rec(loc, kind, th, held) == [loc |-> loc, kind |-> kind, th |-> th, held |-> held]
\* the executor joins its workers before the caller continues: workers of one evaluation are ordered with their own caller
\* but not with each other and not with other evaluators
Unordered(t1, t2) == t1 # t2 /\ ~(t1[1] = t2[1] /\ (t1[2] = 0 \/ t2[2] = 0))
Atomic(loc) == Mode # "unlocked" /\ loc = <<"dirty">>
\* the earlier access e happens-before the new access n: both under the mutex, or e is a write whose evaluator published it
\* (release) and n's evaluator had observed that publication (acquire) before n
Conflicts(n) == \E e \in acc :
                  /\ e.loc = n.loc /\ Unordered(e.th, n.th) /\ (e.kind = "w" \/ n.kind = "w")
                  /\ ~Atomic(n.loc) /\ ~(e.held /\ n.held)
                  /\ ~(e.kind = "w" /\ e.th[1] \in hb[n.th[1]])
Log(loc, kind, th, held) == LET n == Rec(loc, kind, th, held) IN acc' = acc \cup {n} /\ race' = (race \/ Conflicts(n))
Log2(a, b) == acc' = acc \cup {a, b} /\ race' = (race \/ Conflicts(a) \/ Conflicts(b))
NoLog == UNCHANGED <<acc, race>>

Init ==
    /\ dirty = ~Prior /\ vec = (IF Prior THEN TrueLayout ELSE <<>>) /\ lock = 0
    /\ pc = [e \in Evals |-> "check"] /\ k = [e \in Evals |-> 0]
    /\ decoded = [e \in Evals |-> <<>>] /\ pending = [e \in Evals |-> 1..NSegs]
    /\ slots = [e \in Evals |-> {}] /\ order = [e \in Evals |-> <<>>] /\ acc = {}
    /\ hb = [e \in Evals |-> {}] /\ pub = {} /\ race = FALSE

Locked == Mode # "unlocked"
Held(e) == lock = e

\* first (unlocked) test of the dirty flag
Check(e) ==
    /\ pc[e] = "check"
    /\ Log(<<"dirty">>, "r", Th(e, 0), FALSE)
    /\ pc' = [pc EXCEPT ![e] = IF dirty THEN (IF Locked THEN "acquire" ELSE "clear") ELSE "decode"]
    /\ hb' = [hb EXCEPT ![e] = IF Locked /\ ~dirty THEN @ \cup pub ELSE @]      \* acquire load of the atomic flag
    /\ UNCHANGED <<dirty, vec, lock, k, decoded, pending, slots, order, pub>>
Acquire(e) ==
    /\ pc[e] = "acquire" /\ lock = 0
    /\ lock' = e
    /\ pc' = [pc EXCEPT ![e] = "recheck"]
    /\ hb' = [hb EXCEPT ![e] = @ \cup pub]                                        \* mutex acquire
    /\ NoLog /\ UNCHANGED <<dirty, vec, k, decoded, pending, slots, order, pub>>
Recheck(e) ==
    /\ pc[e] = "recheck"
    /\ Log(<<"dirty">>, "r", Th(e, 0), TRUE)
    /\ pc' = [pc EXCEPT ![e] = IF dirty THEN "clear" ELSE "release"]
    /\ UNCHANGED <<dirty, vec, lock, k, decoded, pending, slots, order, hb, pub>>
Clear(e) ==
    /\ pc[e] = "clear"
    /\ vec' = <<>> /\ Log(<<"vec">>, "w", Th(e, 0), Held(e))
    /\ k' = [k EXCEPT ![e] = 1]
    /\ pc' = [pc EXCEPT ![e] = "push"]
    /\ UNCHANGED <<dirty, lock, decoded, pending, slots, order, hb, pub>>
Push(e) ==
    /\ pc[e] = "push"
    /\ IF k[e] <= NPoints
       THEN /\ vec' = Append(vec, k[e]) /\ Log(<<"vec">>, "w", Th(e, 0), Held(e))
            /\ k' = [k EXCEPT ![e] = @ + 1] /\ UNCHANGED <<pc, dirty>>
       ELSE /\ dirty' = FALSE /\ Log(<<"dirty">>, "w", Th(e, 0), Held(e))
            /\ pc' = [pc EXCEPT ![e] = IF Locked THEN "release" ELSE "decode"] /\ UNCHANGED <<vec, k>>
    /\ pub' = IF k[e] > NPoints /\ Locked THEN pub \cup {e} ELSE pub             \* release store of the atomic flag
    /\ UNCHANGED <<lock, decoded, pending, slots, order, hb>>
Release(e) ==
    /\ pc[e] = "release" /\ lock = e
    /\ lock' = 0
    /\ pc' = [pc EXCEPT ![e] = "decode"]
    /\ NoLog /\ UNCHANGED <<dirty, vec, k, decoded, pending, slots, order, hb, pub>>
\* the decode loops iterate over the shared vector (reads, outside any lock)
Decode(e) ==
    /\ pc[e] = "decode"
    /\ Log(<<"vec">>, "r", Th(e, 0), FALSE)
    /\ IF Len(decoded[e]) < Len(vec)
       THEN decoded' = [decoded EXCEPT ![e] = Append(@, vec[Len(@) + 1])] /\ UNCHANGED pc
       ELSE pc' = [pc EXCEPT ![e] = "tasks"] /\ UNCHANGED decoded
    /\ UNCHANGED <<dirty, vec, lock, k, pending, slots, order, hb, pub>>
\* the executor: any pending task on any worker
Task(e, w, i) ==
    /\ pc[e] = "tasks" /\ i \in pending[e]
    /\ pending' = [pending EXCEPT ![e] = @ \ {i}]
    /\ slots' = [slots EXCEPT ![e] = @ \cup {i}]
    /\ IF Mode = "intask"
       THEN /\ order' = [order EXCEPT ![e] = Append(@, i)]                       \* reduction moved into the task
            /\ Log2(Rec(<<"slot", e, i>>, "w", Th(e, w), FALSE), Rec(<<"total", e>>, "w", Th(e, w), FALSE))
       ELSE /\ UNCHANGED order /\ Log(<<"slot", e, i>>, "w", Th(e, w), FALSE)
    /\ UNCHANGED <<dirty, vec, lock, pc, k, decoded, hb, pub>>
TasksDone(e) ==
    /\ pc[e] = "tasks" /\ pending[e] = {}
    /\ pc' = [pc EXCEPT ![e] = "reduce"]
    /\ NoLog /\ UNCHANGED <<dirty, vec, lock, k, decoded, pending, slots, order, hb, pub>>
\* serial reductions on the calling thread, in index order (after the executor has joined its workers)
Reduce(e) ==
    /\ pc[e] = "reduce"
    /\ order' = [order EXCEPT ![e] = IF Mode = "intask" THEN @ ELSE [i \in 1..NSegs |-> i]]
    /\ pc' = [pc EXCEPT ![e] = "done"]
    /\ NoLog /\ UNCHANGED <<dirty, vec, lock, k, decoded, pending, slots, hb, pub>>

Next == \E e \in Evals :
            \/ Check(e) \/ Acquire(e) \/ Recheck(e) \/ Clear(e) \/ Push(e) \/ Release(e) \/ Decode(e) \/ TasksDone(e) \/ Reduce(e)
            \/ \E w \in Workers, i \in 1..NSegs : Task(e, w, i)
Spec == Init /\ [][Next]_vars

(* ------------------------------ properties ---------------------------- *)
DataRaceFree == ~race
ResultIsSerial ==
    \A e \in Evals : pc[e] = "done" => decoded[e] = TrueLayout /\ order[e] = [i \in 1..NSegs |-> i] /\ slots[e] = 1..NSegs
\* the decode loop never starts on a vector that is being rebuilt
DecodeSeesCompleteLayout == \A e \in Evals : pc[e] = "tasks" => decoded[e] = TrueLayout
Inv == DataRaceFree /\ ResultIsSerial /\ DecodeSeesCompleteLayout
=============================================================================
