------------------------------- MODULE MCOptMath -------------------------------
(***************************************************************************)
(* TLC theorems about OptMath on a grid of small configurations:           *)
(*  LayoutLaw   the dimension is N + sum of unconstrained point dimensions *)
(*              + D per flagged derivative block the order has; blocks are *)
(*              laid out contiguously in the documented order              *)
(*  RoundTrip   the initial guess decodes to the reference problem         *)
(*  Pinned      unflagged quantities decode to their reference values for  *)
(*              every decision vector                                      *)
(*  GradOK      the gradient assembled from the functors' true partials    *)
(*              equals exact central differences of the cost (C07; the     *)
(*              cost is Cost of C08) in every component                    *)
(***************************************************************************)
EXTENDS OptMath, FiniteSets

CONSTANTS Orders, Ns, Ds, FlagSets, Ks
VARIABLE pt
Init == pt = <<>>
Next == \/ /\ Len(pt) = 0 /\ \E s \in Orders, N \in Ns : pt' = <<s, N>>
        \/ /\ Len(pt) = 2 /\ \E D \in Ds, f \in FlagSets : pt' = <<pt[1], pt[2], D, f>>
        \/ /\ Len(pt) = 4 /\ \E tk \in {"quad", "sq"}, sk \in {"id", "lift"}, K \in Ks, rho \in {"0", "1/2"} :
                 pt' = <<pt[1], pt[2], pt[3], pt[4], tk, sk, K, rho, "point">>
IsPoint == Len(pt) = 9

Pseudo(a, b, c) == ((a * 7 + b * 13 + c * 29 + a * b * 3 + b * c * 5) - (((a * 7 + b * 13 + c * 29 + a * b * 3 + b * c * 5) \div 11) * 11)) - 5
FlagsOf(f) == CASE f = "none" -> <<FALSE, FALSE, FALSE, FALSE, FALSE, FALSE, FALSE, FALSE>>
                [] f = "all" -> <<TRUE, TRUE, TRUE, TRUE, TRUE, TRUE, TRUE, TRUE>>
                [] f = "start" -> <<TRUE, TRUE, FALSE, TRUE, FALSE, FALSE, TRUE, FALSE>>
                [] f = "end" -> <<FALSE, FALSE, TRUE, FALSE, TRUE, TRUE, FALSE, TRUE>>
Taus(N) == [i \in 1..N |-> RFrac(Pseudo(i, 3, 1), 4)]
Cfg ==
    LET s == pt[1]  N == pt[2]  D == pt[3]
        tm == IF pt[5] = "quad" THEN [kind |-> "quad"] ELSE [kind |-> "sq", scale |-> "3/4"]
        sm == IF pt[6] = "id" THEN [kind |-> "id"] ELSE [kind |-> "lift", gain |-> "1/4", pin |-> -1]
        base == [s |-> s, D |-> D, t0 |-> "1/2", flags |-> FlagsOf(pt[4]), rho |-> pt[8], K |-> pt[7], tm |-> tm, sm |-> sm,
                 T |-> [i \in 1..N |-> TMapVal(tm, Taus(N)[i])],
                 P |-> [j \in 1..(N + 1) |-> [c \in 1..D |-> RFrac(Pseudo(j, c, 2), 2)]],
                 BS |-> [d \in 1..(s - 1) |-> [c \in 1..D |-> RFrac(Pseudo(d, c, 5), 2)]],
                 BE |-> [d \in 1..(s - 1) |-> [c \in 1..D |-> RFrac(Pseudo(d + 2, c, 7), 4)]]]
        \* with the lift map the reference points must lie in the range of the map (as a user's reference would)
        fixP == IF sm.kind = "id" THEN base.P
                ELSE [j \in 1..(N + 1) |-> SMapVal(base, SubSeq(base.P[j], 1, LiftDof(base, j - 1)), j - 1)]
    IN Force([base EXCEPT !.P = fixP])
Cp == [ta |-> "1/2", tb |-> "1/4", tc |-> "-1/8", ww |-> "1/4", wc0 |-> "1/2", ap |-> "1/8", av |-> "1/4", aa |-> "1/16", aj |-> "1/32",
       as |-> "1/64", beta |-> "-1/8", gamma |-> "1/4", delta |-> "1/8", eps |-> "1/16", lie_which |-> 0, lie_i |-> 0, lie_c |-> 0, lie |-> "0"]

RToIntSum(seq) == LET F[i \in 0..Len(seq)] == IF i = 0 THEN 0 ELSE F[i - 1] + seq[i] IN F[Len(seq)]
LayoutLaw == IsPoint =>
    LET cfg == Cfg  lay == Layout(cfg)  N == NOf(cfg)
        nb == Cardinality({q \in 2..4 : cfg.flags[q] /\ q <= cfg.s}) + Cardinality({q \in 6..8 : cfg.flags[q] /\ q - 4 <= cfg.s})
        np == (N - 1) + (IF cfg.flags[1] THEN 1 ELSE 0) + (IF cfg.flags[5] THEN 1 ELSE 0)
    IN /\ Len(lay.points) = np /\ Len(lay.blocks) = nb
       /\ lay.total = N + RToIntSum([q \in 1..np |-> lay.points[q].dof]) + nb * cfg.D
       /\ \A q \in 1..np : lay.points[q].off = N + RToIntSum([r \in 1..(q - 1) |-> lay.points[r].dof])
       /\ \A q \in 1..(np - 1) : lay.points[q].idx < lay.points[q + 1].idx
       /\ lay.doff = lay.total - nb * cfg.D

X0 == InitialGuess(Cfg, Taus(NOf(Cfg)))
RoundTrip == IsPoint =>
    LET cfg == Cfg  pr == Decode(cfg, X0)
    IN pr.T = cfg.T /\ pr.P = cfg.P /\ pr.BS = cfg.BS /\ pr.BE = cfg.BE /\ Len(X0) = Dimension(cfg)
\* a decision vector of pairwise distinct markers: everything not flagged stays at its reference value
Pinned == IsPoint =>
    LET cfg == Cfg  N == NOf(cfg)
        x == [q \in 1..Dimension(cfg) |-> RFrac(100 + q, 7)]
        pr == Decode(cfg, x)
    IN /\ (~cfg.flags[1] => pr.P[1] = cfg.P[1]) /\ (~cfg.flags[5] => pr.P[N + 1] = cfg.P[N + 1])
       /\ \A d \in 1..(cfg.s - 1) : (~cfg.flags[1 + d] => pr.BS[d] = cfg.BS[d]) /\ (~cfg.flags[5 + d] => pr.BE[d] = cfg.BE[d])
       /\ \A d \in 1..(cfg.s - 1) : (cfg.flags[1 + d] => pr.BS[d] # cfg.BS[d]) /\ (cfg.flags[5 + d] => pr.BE[d] # cfg.BE[d])

h == RPow("10", -7)
GradOK == IsPoint =>
    LET cfg == Cfg
        x == Force([q \in 1..Len(X0) |-> RAdd(X0[q], RFrac(Pseudo(q, 2, 3), 16))])
        g == Force(Grad(cfg, Cp, x, TRUE))
        cd(q) == RDiv(RSub(Cost(cfg, Cp, [x EXCEPT ![q] = RAdd(@, h)], TRUE), Cost(cfg, Cp, [x EXCEPT ![q] = RSub(@, h)], TRUE)), RMul("2", h))
        scale == RMax(RMaxSeq([q \in 1..Len(x) |-> RAbs(g.grad[q])]), One)
    IN /\ g.cost = Cost(cfg, Cp, x, TRUE)
       /\ \A q \in 1..Len(x) : RLe(RAbs(RSub(cd(q), g.grad[q])), RMul(RPow("10", -8), scale))
\* the two-cost overload is the three-cost one with a zero waypoint cost
TwoCost == IsPoint =>
    LET cfg == Cfg  x == X0
    IN Cost(cfg, Cp, x, FALSE) = Cost(cfg, [Cp EXCEPT !.ww = Zero], x, TRUE)
=============================================================================
