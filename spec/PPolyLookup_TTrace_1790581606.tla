---- MODULE PPolyLookup_TTrace_1790581606 ----
EXTENDS Sequences, TLCExt, Toolbox, Naturals, TLC, PPolyLookup

_expression ==
    LET PPolyLookup_TEExpression == INSTANCE PPolyLookup_TEExpression
    IN PPolyLookup_TEExpression!expression
----

_trace ==
    LET PPolyLookup_TETrace == INSTANCE PPolyLookup_TETrace
    IN PPolyLookup_TETrace!trace
----

_inv ==
    ~(
        TLCGet("level") = Len(_TETrace)
        /\
        lastT = (2)
        /\
        hint = (0)
        /\
        ok = (FALSE)
        /\
        bp = (<<0, 2, 4>>)
    )
----

_init ==
    /\ hint = _TETrace[1].hint
    /\ bp = _TETrace[1].bp
    /\ ok = _TETrace[1].ok
    /\ lastT = _TETrace[1].lastT
----

_next ==
    /\ \E i,j \in DOMAIN _TETrace:
        /\ \/ /\ j = i + 1
              /\ i = TLCGet("level")
        /\ hint  = _TETrace[i].hint
        /\ hint' = _TETrace[j].hint
        /\ bp  = _TETrace[i].bp
        /\ bp' = _TETrace[j].bp
        /\ ok  = _TETrace[i].ok
        /\ ok' = _TETrace[j].ok
        /\ lastT  = _TETrace[i].lastT
        /\ lastT' = _TETrace[j].lastT

\* Uncomment the ASSUME below to write the states of the error trace
\* to the given file in Json format. Note that you can pass any tuple
\* to `JsonSerialize`. For example, a sub-sequence of _TETrace.
    \* ASSUME
    \*     LET J == INSTANCE Json
    \*         IN J!JsonSerialize("PPolyLookup_TTrace_1790581606.json", _TETrace)

=============================================================================

 Note that you can extract this module `PPolyLookup_TEExpression`
  to a dedicated file to reuse `expression` (the module in the 
  dedicated `PPolyLookup_TEExpression.tla` file takes precedence 
  over the module `PPolyLookup_TEExpression` below).

---- MODULE PPolyLookup_TEExpression ----
EXTENDS Sequences, TLCExt, Toolbox, Naturals, TLC, PPolyLookup

expression == 
    [
        \* To hide variables of the `PPolyLookup` spec from the error trace,
        \* remove the variables below.  The trace will be written in the order
        \* of the fields of this record.
        hint |-> hint
        ,bp |-> bp
        ,ok |-> ok
        ,lastT |-> lastT
        
        \* Put additional constant-, state-, and action-level expressions here:
        \* ,_stateNumber |-> _TEPosition
        \* ,_hintUnchanged |-> hint = hint'
        
        \* Format the `hint` variable as Json value.
        \* ,_hintJson |->
        \*     LET J == INSTANCE Json
        \*     IN J!ToJson(hint)
        
        \* Lastly, you may build expressions over arbitrary sets of states by
        \* leveraging the _TETrace operator.  For example, this is how to
        \* count the number of times a spec variable changed up to the current
        \* state in the trace.
        \* ,_hintModCount |->
        \*     LET F[s \in DOMAIN _TETrace] ==
        \*         IF s = 1 THEN 0
        \*         ELSE IF _TETrace[s].hint # _TETrace[s-1].hint
        \*             THEN 1 + F[s-1] ELSE F[s-1]
        \*     IN F[_TEPosition - 1]
    ]

=============================================================================



Parsing and semantic processing can take forever if the trace below is long.
 In this case, it is advised to uncomment the module below to deserialize the
 trace from a generated binary file.

\*
\*---- MODULE PPolyLookup_TETrace ----
\*EXTENDS IOUtils, TLC, PPolyLookup
\*
\*trace == IODeserialize("PPolyLookup_TTrace_1790581606.bin", TRUE)
\*
\*=============================================================================
\*

---- MODULE PPolyLookup_TETrace ----
EXTENDS TLC, PPolyLookup

trace == 
    <<
    ([lastT |-> 0,hint |-> 0,ok |-> TRUE,bp |-> <<0, 2, 4>>]),
    ([lastT |-> 2,hint |-> 0,ok |-> FALSE,bp |-> <<0, 2, 4>>])
    >>
----


=============================================================================

---- CONFIG PPolyLookup_TTrace_1790581606 ----
CONSTANTS
    L = 4
    MaxSeg = 4
    Threshold = 3
    Broken = "le"

INVARIANT
    _inv

CHECK_DEADLOCK
    \* CHECK_DEADLOCK off because of PROPERTY or INVARIANT above.
    FALSE

INIT
    _init

NEXT
    _next

CONSTANT
    _TETrace <- _trace

ALIAS
    _expression
=============================================================================
\* Generated on Mon Sep 28 07:46:47 UTC 2026