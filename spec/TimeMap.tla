-------------------------------- MODULE TimeMap --------------------------------
(***************************************************************************)
(* The default time map as exact rational functions.                       *)
(*   tau > 0 :  T = tau^2/2 + tau + 1                                       *)
(*   tau <= 0:  T = 1 / (tau^2/2 - tau + 1)                                 *)
(* a smooth increasing bijection from the reals onto the positive reals.    *)
(* Its inverse involves a square root and is therefore stated as the        *)
(* RELATION  Inverse(T, tau) == ToTime(tau) = T.                            *)
(***************************************************************************)
EXTENDS Rat, Sequences

Half == "1/2"
PosBranch(tau) == RAdd(RMul(RAdd(RMul(Half, tau), One), tau), One)
NegDen(tau) == RAdd(RMul(RSub(RMul(Half, tau), One), tau), One)
ToTime(tau) == IF RLt(Zero, tau) THEN PosBranch(tau) ELSE RDiv(One, NegDen(tau))
\* dT/dtau
DToTime(tau) == IF RLt(Zero, tau) THEN RAdd(tau, One) ELSE RDiv(RSub(One, tau), RSq(NegDen(tau)))
\* d2T/dtau2
DDToTime(tau) == IF RLt(Zero, tau) THEN One
                 ELSE LET d == NegDen(tau)  dp == RSub(tau, One)      \* d' = tau - 1
                      IN RDiv(RSub(RNeg(RSq(d)), RMul(RMul("2", RMul(RSub(One, tau), d)), dp)), RPow(d, 4))
Backward(tau, g) == RMul(g, DToTime(tau))
\* the quantity whose square root the inverse takes: (tau+1)^2 for T > 1, (1-tau)^2 for T <= 1
InvRadicand(T) == IF RLt(One, T) THEN RSub(RMul("2", T), One) ELSE RSub(RDiv("2", T), One)
=============================================================================
