SPECIFICATION Spec
CONSTANTS
  Evals = {1, 2}
  NPoints = 2
  NSegs = 2
  Workers = {1, 2}
  Mode = "locked"
  Prior = FALSE
INVARIANT Inv
CHECK_DEADLOCK FALSE
