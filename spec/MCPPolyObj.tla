------------------------------- MODULE MCPPolyObj -------------------------------
(* Exhaustive exploration of the PPolyND life cycle with small constants, and    *)
(* generation of one script per transition of the abstract graph (C03, C11, C16). *)
EXTENDS PPolyObj, Json, FiniteSets

CONSTANTS Ids, Fixed, Ncs, Segs, Versions, MaxOps, Emit, Broken, KindSet, EvalKs, DerivKs
\* KindSet, EvalKs, DerivKs narrow the alphabet so that deeper histories stay enumerable (focused generators)
\* Fixed: order parameter of the class (0 = dynamic); Ncs: coefficient counts tried; Segs: segment counts tried
\* Broken twins: "noinvalidate" (update keeps the derivative cache), "keeptable" (update keeps the factor table),
\* "assignkeep" (assignment takes over the source's caches only when they are built, else the destination keeps its own),
\* "sharecache" (copies share the cache storage; a same-shape update marks it dirty in place instead of detaching - with
\* Broken = "sharecache" the invariant checked is the observable one, NeverStale, not the design rule NoSharedCache itself)

VARIABLES hist, last
mvars == <<pobjs, hist, last>>

Kinds == {"ok", "few_bp", "row_mismatch"}     \* + "too_many" via nc > Fixed when Fixed > 0
Shape(kind, nseg, nc) ==
    CASE kind = "ok" -> [nbp |-> nseg + 1, rows |-> nseg * nc]
      [] kind = "few_bp" -> [nbp |-> 1, rows |-> 0]
      [] kind = "row_mismatch" -> [nbp |-> nseg + 1, rows |-> nseg * nc + 1]

\* opaque data of an object: a flat tag sequence (comparable with every other tag: position i has the same type in all of them)
Dat(v, nseg, nc) == <<"c", v, nseg, nc>>

BreakIt(o, old) ==
    CASE Broken = "noinvalidate" -> [o EXCEPT !.dcReady = old.dcReady]
      [] Broken = "keeptable" -> [o EXCEPT !.ftReady = old.ftReady]
      [] OTHER -> o

DoCtor(id, v, kind, nseg, nc) ==
    /\ LET sh == Shape(kind, nseg, nc) IN PConstruct(id, Fixed, Dat(v, nseg, nc), sh.nbp, sh.rows, nc)
    /\ hist' = Append(hist, [op |-> "ctor", obj |-> id, v |-> v, kind |-> kind, nseg |-> nseg, nc |-> nc])
    /\ last' = <<"ctor", id, v, kind, nseg, nc>>
DoUpdate(id, v, kind, nseg, nc) ==
    /\ id \in PLive
    /\ LET sh == Shape(kind, nseg, nc)
           good == Initialise(pobjs[id], pobjs[id].fixed, Dat(v, nseg, nc), sh.nbp, sh.rows, nc)
       IN IF Broken = "sharecache"
          THEN LET old == pobjs[id]
                   same == good.init /\ old.init /\ good.nseg = old.nseg /\ good.nc = old.nc
               IN pobjs' = [i \in PLive |->
                     IF i = id THEN [good EXCEPT !.shares = IF same THEN old.shares ELSE {}]
                     ELSE IF i \in old.shares
                          THEN (IF same THEN [pobjs[i] EXCEPT !.dcReady = FALSE]                 \* dirtied in place: the sharers see it
                                ELSE [pobjs[i] EXCEPT !.shares = @ \ {id}])                     \* detached
                          ELSE pobjs[i]]
          ELSE Put(id, IF Broken = "none" THEN good ELSE BreakIt(good, pobjs[id]))
    /\ hist' = Append(hist, [op |-> "update", obj |-> id, v |-> v, kind |-> kind, nseg |-> nseg, nc |-> nc])
    /\ last' = <<"update", id, v, kind, nseg, nc>>
DoEval(id, k) ==
    /\ IF Broken = "sharecache" /\ id \in PLive
       THEN LET o == pobjs[id]
                o2 == AfterEval(o, k)
                built == ~o.dcReady /\ o2.dcReady                                           \* this evaluation filled the (shared) storage
            IN pobjs' = [i \in PLive |-> IF i = id THEN o2
                                         ELSE IF built /\ i \in o.shares THEN [pobjs[i] EXCEPT !.dcReady = TRUE, !.dcVer = o2.dcVer, !.dcNc = o2.dcNc]
                                         ELSE pobjs[i]]
       ELSE PEval(id, k)
    /\ hist' = Append(hist, [op |-> "eval", obj |-> id, k |-> k])
    /\ last' = <<"eval", id, k>>
DoDeriv(dst, src, k) ==
    /\ dst # src
    /\ src \in PLive
    /\ PDerivative(dst, src, k, pobjs[src].data \o <<"d", k>>)
    /\ hist' = Append(hist, [op |-> "derivative", dst |-> dst, src |-> src, k |-> k])
    /\ last' = <<"derivative", dst, src, k>>
ShareCopy(dst, src) ==
    /\ src \in PLive
    /\ LET grp == pobjs[src].shares \cup {src}
           leave == IF dst \in PLive THEN pobjs[dst].shares ELSE {}
       IN pobjs' = [i \in PLive \cup {dst} |->
                     IF i = dst THEN [pobjs[src] EXCEPT !.shares = grp \ {dst}]
                     ELSE IF i \in grp THEN [pobjs[i] EXCEPT !.shares = (@ \cup {dst}) \ {i}]
                     ELSE IF i \in leave THEN [pobjs[i] EXCEPT !.shares = @ \ {dst}]
                     ELSE pobjs[i]]
DoCopy(dst, src) ==
    /\ dst # src /\ (IF Broken = "sharecache" THEN ShareCopy(dst, src) ELSE PCopy(dst, src))
    /\ hist' = Append(hist, [op |-> "copy", dst |-> dst, src |-> src])
    /\ last' = <<"copy", dst, src>>
DoAssign(dst, src) ==
    /\ dst # src
    /\ IF Broken = "assignkeep" /\ src \in PLive /\ dst \in PLive
       THEN LET so == pobjs[src]
                d == pobjs[dst]
                keepDc == IF so.dcReady THEN so ELSE [so EXCEPT !.dcReady = d.dcReady, !.dcVer = d.dcVer, !.dcNc = d.dcNc]
                keepFt == IF so.ftReady THEN keepDc ELSE [keepDc EXCEPT !.ftReady = d.ftReady, !.ftNc = d.ftNc]
            IN Put(dst, keepFt)
       ELSE IF Broken = "sharecache" THEN (dst \in PLive /\ ShareCopy(dst, src))
       ELSE PAssign(dst, src)
    /\ hist' = Append(hist, [op |-> "assign", dst |-> dst, src |-> src])
    /\ last' = <<"assign", dst, src>>

Init == PInit /\ hist = <<>> /\ last = <<>>
Next ==
    \/ \E id \in Ids, v \in Versions, kind \in KindSet, nseg \in Segs, nc \in Ncs : DoCtor(id, v, kind, nseg, nc) \/ DoUpdate(id, v, kind, nseg, nc)
    \/ \E id \in Ids, k \in EvalKs : DoEval(id, k)
    \/ \E d \in Ids, s \in Ids, k \in DerivKs : DoDeriv(d, s, k)
    \/ \E d \in Ids, s \in Ids : DoCopy(d, s) \/ DoAssign(d, s)
Spec == Init /\ [][Next]_mvars

Bound == Len(hist) <= MaxOps
AbsObj(o) == [init |-> o.init, data |-> o.data, nc |-> o.nc, nseg |-> o.nseg, dc |-> o.dcReady, dcCur |-> o.dcVer = o.data,
              dcNc |-> o.dcNc, ft |-> o.ftReady, ftNc |-> o.ftNc, stale |-> o.stale, shares |-> o.shares]
View == <<[i \in PLive |-> AbsObj(pobjs[i])], last>>
EmitScripts == Bound /\ (Emit /\ Len(hist) > 0 => PrintT(<<"SCRIPT", ToJson(hist)>>))
Inv == IF Broken = "sharecache" THEN CacheCoherent /\ NeverStale /\ RejectedIsEmpty ELSE PObjInv
=============================================================================
