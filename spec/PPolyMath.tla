------------------------------ MODULE PPolyMath ------------------------------
(***************************************************************************)
(* Meaning of a piecewise polynomial: breakpoints b_0 < ... < b_n, one     *)
(* coefficient block per piece, ascending powers of (t - b_i).             *)
(* Evaluation at t uses the piece whose half-open interval [b_i, b_i+1)    *)
(* contains t; the first piece before b_0; the last piece at or after b_n. *)
(***************************************************************************)
EXTENDS Numerics

\* index (1-based) of the piece used for time t; bp has n+1 entries, n >= 1
Piece(bp, t) ==
    LET n == Len(bp) - 1
    IN IF RLt(t, bp[1]) THEN 1
       ELSE IF RLe(bp[n + 1], t) THEN n
       ELSE CHOOSE i \in 1..n : RLe(bp[i], t) /\ RLt(t, bp[i + 1])

\* coefficient polynomial of piece i (1-based), coordinate col, nc coefficients per piece
PiecePoly(C, nc, i, col) == Force([k \in 1..nc |-> C[(i - 1) * nc + k][col]])
\* exact k-th derivative at global time t (all coordinates); zero when k >= nc
EvalAt(bp, C, nc, t, k) ==
    LET i == Piece(bp, t)
        tau == RSub(t, bp[i])
    IN Force([col \in 1..Len(C[1]) |-> IF k >= nc THEN Zero ELSE PolyEvalD(PiecePoly(C, nc, i, col), tau, k)])
\* magnitude the Horner evaluation is assembled from: sum_j |ff(j,k) c_j tau^(j-k)|
EvalAbsAt(bp, C, nc, t, k) ==
    LET i == Piece(bp, t)
        tau == RSub(t, bp[i])
    IN Force([col \in 1..Len(C[1]) |-> IF k >= nc THEN Zero ELSE PolyAbsEval(PolyDeriv(PiecePoly(C, nc, i, col), k), tau)])
\* local-time evaluation of a given piece
EvalLocal(C, nc, i, tau, k) ==
    [col \in 1..Len(C[1]) |-> IF k >= nc \/ k < 0 THEN Zero ELSE PolyEvalD(PiecePoly(C, nc, i, col), tau, k)]
EvalAbsLocal(C, nc, i, tau, k) ==
    [col \in 1..Len(C[1]) |-> IF k >= nc \/ k < 0 THEN Zero ELSE PolyAbsEval(PolyDeriv(PiecePoly(C, nc, i, col), k), tau)]

\* 2^-52: one unit in the last place relative to 1
Eps == RPow("2", -52)
\* |got - want| <= ulps * Eps * mag   (DESIGN s4: evaluation tolerance, ulps = 64)
WithinUlps(got, want, mag, ulps) == RLe(RAbs(RSub(got, want)), RMul(RMul(RInt(ulps), Eps), mag))
=============================================================================
