---- MODULE MCOptObj_TTrace_1790580589 ----
EXTENDS MCOptObj, Sequences, TLCExt, Toolbox, Naturals, TLC

_expression ==
    LET MCOptObj_TEExpression == INSTANCE MCOptObj_TEExpression
    IN MCOptObj_TEExpression!expression
----

_trace ==
    LET MCOptObj_TETrace == INSTANCE MCOptObj_TETrace
    IN MCOptObj_TETrace!trace
----

_inv ==
    ~(
        TLCGet("level") = Len(_TETrace)
        /\
        hist = (<<[op |-> "opt_new", obj |-> 1], [op |-> "get_dim", obj |-> 1], [op |-> "set_flags", obj |-> 1, f |-> 0], [op |-> "get_dim", obj |-> 1]>>)
        /\
        nextWs = (1)
        /\
        last = (<<"get_dim", 1>>)
        /\
        opts = (<<[n |-> 0, valid |-> FALSE, flags |-> <<0>>, sref |-> [own |-> 1], ws |-> 0, cfgv |-> 0, msg |-> FALSE, tref |-> [own |-> 1], lay |-> [dirty |-> FALSE, key |-> [n |-> 0, flags |-> <<>>, sref |-> [own |-> 1]]], staleLayout |-> TRUE]>>)
        /\
        umaps = (<<>>)
    )
----

_init ==
    /\ umaps = _TETrace[1].umaps
    /\ nextWs = _TETrace[1].nextWs
    /\ hist = _TETrace[1].hist
    /\ last = _TETrace[1].last
    /\ opts = _TETrace[1].opts
----

_next ==
    /\ \E i,j \in DOMAIN _TETrace:
        /\ \/ /\ j = i + 1
              /\ i = TLCGet("level")
        /\ umaps  = _TETrace[i].umaps
        /\ umaps' = _TETrace[j].umaps
        /\ nextWs  = _TETrace[i].nextWs
        /\ nextWs' = _TETrace[j].nextWs
        /\ hist  = _TETrace[i].hist
        /\ hist' = _TETrace[j].hist
        /\ last  = _TETrace[i].last
        /\ last' = _TETrace[j].last
        /\ opts  = _TETrace[i].opts
        /\ opts' = _TETrace[j].opts

\* Uncomment the ASSUME below to write the states of the error trace
\* to the given file in Json format. Note that you can pass any tuple
\* to `JsonSerialize`. For example, a sub-sequence of _TETrace.
    \* ASSUME
    \*     LET J == INSTANCE Json
    \*         IN J!JsonSerialize("MCOptObj_TTrace_1790580589.json", _TETrace)

=============================================================================

 Note that you can extract this module `MCOptObj_TEExpression`
  to a dedicated file to reuse `expression` (the module in the 
  dedicated `MCOptObj_TEExpression.tla` file takes precedence 
  over the module `MCOptObj_TEExpression` below).

---- MODULE MCOptObj_TEExpression ----
EXTENDS MCOptObj, Sequences, TLCExt, Toolbox, Naturals, TLC

expression == 
    [
        \* To hide variables of the `MCOptObj` spec from the error trace,
        \* remove the variables below.  The trace will be written in the order
        \* of the fields of this record.
        umaps |-> umaps
        ,nextWs |-> nextWs
        ,hist |-> hist
        ,last |-> last
        ,opts |-> opts
        
        \* Put additional constant-, state-, and action-level expressions here:
        \* ,_stateNumber |-> _TEPosition
        \* ,_umapsUnchanged |-> umaps = umaps'
        
        \* Format the `umaps` variable as Json value.
        \* ,_umapsJson |->
        \*     LET J == INSTANCE Json
        \*     IN J!ToJson(umaps)
        
        \* Lastly, you may build expressions over arbitrary sets of states by
        \* leveraging the _TETrace operator.  For example, this is how to
        \* count the number of times a spec variable changed up to the current
        \* state in the trace.
        \* ,_umapsModCount |->
        \*     LET F[s \in DOMAIN _TETrace] ==
        \*         IF s = 1 THEN 0
        \*         ELSE IF _TETrace[s].umaps # _TETrace[s-1].umaps
        \*             THEN 1 + F[s-1] ELSE F[s-1]
        \*     IN F[_TEPosition - 1]
    ]

=============================================================================



Parsing and semantic processing can take forever if the trace below is long.
 In this case, it is advised to uncomment the module below to deserialize the
 trace from a generated binary file.

\*
\*---- MODULE MCOptObj_TETrace ----
\*EXTENDS MCOptObj, IOUtils, TLC
\*
\*trace == IODeserialize("MCOptObj_TTrace_1790580589.bin", TRUE)
\*
\*=============================================================================
\*

---- MODULE MCOptObj_TETrace ----
EXTENDS MCOptObj, TLC

trace == 
    <<
    ([hist |-> <<>>,nextWs |-> 1,last |-> <<>>,opts |-> <<>>,umaps |-> <<>>]),
    ([hist |-> <<[op |-> "opt_new", obj |-> 1]>>,nextWs |-> 1,last |-> <<"new", 1>>,opts |-> <<[n |-> 0, valid |-> FALSE, flags |-> <<>>, sref |-> [own |-> 1], ws |-> 0, cfgv |-> 0, msg |-> FALSE, tref |-> [own |-> 1], lay |-> [dirty |-> TRUE, key |-> <<>>], staleLayout |-> FALSE]>>,umaps |-> <<>>]),
    ([hist |-> <<[op |-> "opt_new", obj |-> 1], [op |-> "get_dim", obj |-> 1]>>,nextWs |-> 1,last |-> <<"get_dim", 1>>,opts |-> <<[n |-> 0, valid |-> FALSE, flags |-> <<>>, sref |-> [own |-> 1], ws |-> 0, cfgv |-> 0, msg |-> FALSE, tref |-> [own |-> 1], lay |-> [dirty |-> FALSE, key |-> [n |-> 0, flags |-> <<>>, sref |-> [own |-> 1]]], staleLayout |-> FALSE]>>,umaps |-> <<>>]),
    ([hist |-> <<[op |-> "opt_new", obj |-> 1], [op |-> "get_dim", obj |-> 1], [op |-> "set_flags", obj |-> 1, f |-> 0]>>,nextWs |-> 1,last |-> <<"flags", 1, <<0>>>>,opts |-> <<[n |-> 0, valid |-> FALSE, flags |-> <<0>>, sref |-> [own |-> 1], ws |-> 0, cfgv |-> 0, msg |-> FALSE, tref |-> [own |-> 1], lay |-> [dirty |-> FALSE, key |-> [n |-> 0, flags |-> <<>>, sref |-> [own |-> 1]]], staleLayout |-> FALSE]>>,umaps |-> <<>>]),
    ([hist |-> <<[op |-> "opt_new", obj |-> 1], [op |-> "get_dim", obj |-> 1], [op |-> "set_flags", obj |-> 1, f |-> 0], [op |-> "get_dim", obj |-> 1]>>,nextWs |-> 1,last |-> <<"get_dim", 1>>,opts |-> <<[n |-> 0, valid |-> FALSE, flags |-> <<0>>, sref |-> [own |-> 1], ws |-> 0, cfgv |-> 0, msg |-> FALSE, tref |-> [own |-> 1], lay |-> [dirty |-> FALSE, key |-> [n |-> 0, flags |-> <<>>, sref |-> [own |-> 1]]], staleLayout |-> TRUE]>>,umaps |-> <<>>])
    >>
----


=============================================================================

---- CONFIG MCOptObj_TTrace_1790580589 ----
CONSTANTS
    Ids = { 1 , 2 }
    Maps = { 1 }
    MaxOps = 4
    Emit = FALSE
    Broken = "flagsnodirty"

INVARIANT
    _inv

CHECK_DEADLOCK
    \* CHECK_DEADLOCK off because of PROPERTY or INVARIANT above.
    FALSE

INIT
    _init

NEXT
    _next

CONSTANT
    _TETrace <- _trace

ALIAS
    _expression
=============================================================================
\* Generated on Mon Sep 28 07:29:50 UTC 2026