-------------------------------- MODULE MCOptObj --------------------------------
(* Exhaustive exploration of the optimizer life cycle (OptObj) with small constants, three broken twins that TLC must  *)
(* reject, and generation of one script per transition of the abstract graph for replay on the real class (C09, C15, C16). *)
EXTENDS OptObj, Json

CONSTANTS Ids, Maps, MaxOps, Emit, Broken,
          Alphabet,     \* names of the calls explored (a generator may restrict them to reach deeper histories)
          ProblemIds    \* which of the three reference problems are used
\* Broken: "none" | "flagsnodirty" (setOptimizationFlags forgets markLayoutDirty) | "smapnodirty" (setSpatialMap forgets it)
\*         | "verbatim" (copy operations copy the active-map pointers verbatim) | "sharews" (copy shares the workspace)

VARIABLES hist, last
mvars == <<opts, umaps, nextWs, hist, last>>

FlagSets == {<<0>>, <<1>>}          \* abstract flag settings (two different ones)
AllProblems == {[v |-> 1, n |-> 1, valid |-> TRUE], [v |-> 2, n |-> 2, valid |-> TRUE], [v |-> 3, n |-> 2, valid |-> FALSE]}
Problems == {p \in AllProblems : p.v \in ProblemIds}
On(a) == a \in Alphabet

H(rec) == hist' = Append(hist, rec)
DoNew(id) == id \notin OLive /\ ONew(id) /\ H([op |-> "opt_new", obj |-> id]) /\ last' = <<"new", id>>
DoInit(id, p) == OSetInit(id, p.v, p.n, p.valid, TRUE) /\ H([op |-> "set_init", obj |-> id, v |-> p.v]) /\ last' = <<"init", id, p.v>>
DoInitEmpty(id) == OSetInit(id, 0, 0, FALSE, FALSE) /\ H([op |-> "set_init_empty", obj |-> id]) /\ last' = <<"initempty", id>>
DoFlags(id, f) ==
    /\ id \in OLive
    /\ (IF Broken = "flagsnodirty" THEN PutO(id, [opts[id] EXCEPT !.flags = f]) /\ UNCHANGED <<umaps, nextWs>> ELSE OSetFlags(id, f))
    /\ H([op |-> "set_flags", obj |-> id, f |-> f[1]]) /\ last' = <<"flags", id, f>>
DoSMap(id, m) ==
    /\ id \in OLive /\ (m = 0 \/ m \in DOMAIN umaps)
    /\ (IF Broken = "smapnodirty" THEN PutO(id, [opts[id] EXCEPT !.sref = IF m = 0 THEN Own(id) ELSE User(m)]) /\ UNCHANGED <<umaps, nextWs>>
        ELSE OSetSMap(id, m))
    /\ H([op |-> "set_smap", obj |-> id, map |-> m]) /\ last' = <<"smap", id, m>>
DoTMap(id, m) == OSetTMap(id, m) /\ H([op |-> "set_tmap", obj |-> id, map |-> m]) /\ last' = <<"tmap", id, m>>
DoRead(id, which) == OReadLayout(id) /\ H([op |-> which, obj |-> id]) /\ last' = <<which, id>>
DoEval(id, own) == OEvaluate(id, own) /\ H([op |-> "evaluate", obj |-> id, own |-> own]) /\ last' = <<"eval", id, own>>
DoCopy(dst, src, how) ==
    /\ src \in OLive
    /\ (how = "assign" => dst \in OLive) /\ (how = "copy" => dst \notin OLive)
    /\ (IF Broken = "verbatim" /\ dst # src
        THEN PutO(dst, [opts[src] EXCEPT !.ws = IF opts[src].ws = 0 THEN 0 ELSE nextWs]) /\ nextWs' = nextWs + 1 /\ UNCHANGED umaps
        ELSE IF Broken = "sharews" /\ dst # src
        THEN PutO(dst, [CopyOf(src, dst) EXCEPT !.ws = opts[src].ws]) /\ UNCHANGED <<umaps, nextWs>>
        ELSE OCopy(dst, src))
    /\ H([op |-> IF how = "copy" THEN "opt_copy" ELSE "opt_assign", dst |-> dst, src |-> src]) /\ last' = <<how, dst, src>>
DoDestroy(id) == ODestroy(id) /\ H([op |-> "opt_destroy", obj |-> id]) /\ last' = <<"destroy", id>>
DoMapNew(m) == m \notin DOMAIN umaps /\ MapNew(m) /\ H([op |-> "map_new", map |-> m]) /\ last' = <<"mapnew", m>>
DoMapMutate(m) == MapMutate(m) /\ H([op |-> "map_mutate", map |-> m]) /\ last' = <<"mapmut", m>>

Init == OptInit /\ hist = <<>> /\ last = <<>>
Next ==
    \/ \E id \in Ids : (On("new") /\ DoNew(id)) \/ (On("init_empty") /\ DoInitEmpty(id)) \/ (On("destroy") /\ DoDestroy(id))
                        \/ (On("get_dim") /\ DoRead(id, "get_dim")) \/ (On("init_guess") /\ DoRead(id, "init_guess"))
    \/ On("init") /\ \E id \in Ids, p \in Problems : DoInit(id, p)
    \/ On("flags") /\ \E id \in Ids, f \in FlagSets : DoFlags(id, f)
    \/ \E id \in Ids, m \in Maps \cup {0} : (On("smap") /\ DoSMap(id, m)) \/ (On("tmap") /\ DoTMap(id, m))
    \/ On("evaluate") /\ \E id \in Ids, own \in BOOLEAN : DoEval(id, own)
    \/ \E d \in Ids, s \in Ids, how \in {"copy", "assign"} : On(how) /\ DoCopy(d, s, how)
    \/ \E m \in Maps : (On("map_new") /\ DoMapNew(m)) \/ (On("map_mutate") /\ DoMapMutate(m))
Spec == Init /\ [][Next]_mvars

Bound == Len(hist) <= MaxOps
\* workspace ids only matter up to equality between live objects; the cached layout key is part of the view: a cache never
\* built and a cache built for an earlier configuration are different hidden states (the second one holds stale entries)
AbsObj(o) == [cfgv |-> o.cfgv, n |-> o.n, flags |-> o.flags, valid |-> o.valid, msg |-> o.msg, tref |-> o.tref, sref |-> o.sref,
              dirty |-> o.lay.dirty, key |-> o.lay.key, hasws |-> o.ws # 0, stale |-> o.staleLayout]
View == <<[i \in OLive |-> AbsObj(opts[i])], {<<i, j>> \in OLive \X OLive : i # j /\ opts[i].ws # 0 /\ opts[i].ws = opts[j].ws},
          DOMAIN umaps, last>>
EmitScripts == Bound /\ (Emit /\ Len(hist) > 0 => PrintT(<<"SCRIPT", ToJson(hist)>>))
Inv == OptObjInv
=============================================================================
