INIT Init
NEXT Next
CONSTANTS
  Orders = {2, 3, 4}
  Ns = {1, 2}
  Ds = {1, 2}
  FlagSets = {"none", "all", "start"}
  Ks = {1, 3}
INVARIANTS LayoutLaw RoundTrip Pinned GradOK TwoCost
CHECK_DEADLOCK FALSE
