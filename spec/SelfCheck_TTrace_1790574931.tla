---- MODULE SelfCheck_TTrace_1790574931 ----
EXTENDS Sequences, TLCExt, Toolbox, Naturals, TLC, SelfCheck

_expression ==
    LET SelfCheck_TEExpression == INSTANCE SelfCheck_TEExpression
    IN SelfCheck_TEExpression!expression
----

_trace ==
    LET SelfCheck_TETrace == INSTANCE SelfCheck_TETrace
    IN SelfCheck_TETrace!trace
----

_inv ==
    ~(
        TLCGet("level") = Len(_TETrace)
        /\
        evals = (<<<<0, 0, 0, 0>>, <<1, 0, 0, 0>>, <<-1, 0, 0, 0>>>>)
        /\
        pc = ("plus")
        /\
        i = (2)
        /\
        xt = (<<-1, 0, 0, 0>>)
        /\
        ws = (<<-1, 0, 0, 0>>)
    )
----

_init ==
    /\ xt = _TETrace[1].xt
    /\ evals = _TETrace[1].evals
    /\ i = _TETrace[1].i
    /\ pc = _TETrace[1].pc
    /\ ws = _TETrace[1].ws
----

_next ==
    /\ \E i,j \in DOMAIN _TETrace:
        /\ \/ /\ j = i + 1
              /\ i = TLCGet("level")
        /\ xt  = _TETrace[i].xt
        /\ xt' = _TETrace[j].xt
        /\ evals  = _TETrace[i].evals
        /\ evals' = _TETrace[j].evals
        /\ i  = _TETrace[i].i
        /\ i' = _TETrace[j].i
        /\ pc  = _TETrace[i].pc
        /\ pc' = _TETrace[j].pc
        /\ ws  = _TETrace[i].ws
        /\ ws' = _TETrace[j].ws

\* Uncomment the ASSUME below to write the states of the error trace
\* to the given file in Json format. Note that you can pass any tuple
\* to `JsonSerialize`. For example, a sub-sequence of _TETrace.
    \* ASSUME
    \*     LET J == INSTANCE Json
    \*         IN J!JsonSerialize("SelfCheck_TTrace_1790574931.json", _TETrace)

=============================================================================

 Note that you can extract this module `SelfCheck_TEExpression`
  to a dedicated file to reuse `expression` (the module in the 
  dedicated `SelfCheck_TEExpression.tla` file takes precedence 
  over the module `SelfCheck_TEExpression` below).

---- MODULE SelfCheck_TEExpression ----
EXTENDS Sequences, TLCExt, Toolbox, Naturals, TLC, SelfCheck

expression == 
    [
        \* To hide variables of the `SelfCheck` spec from the error trace,
        \* remove the variables below.  The trace will be written in the order
        \* of the fields of this record.
        xt |-> xt
        ,evals |-> evals
        ,i |-> i
        ,pc |-> pc
        ,ws |-> ws
        
        \* Put additional constant-, state-, and action-level expressions here:
        \* ,_stateNumber |-> _TEPosition
        \* ,_xtUnchanged |-> xt = xt'
        
        \* Format the `xt` variable as Json value.
        \* ,_xtJson |->
        \*     LET J == INSTANCE Json
        \*     IN J!ToJson(xt)
        
        \* Lastly, you may build expressions over arbitrary sets of states by
        \* leveraging the _TETrace operator.  For example, this is how to
        \* count the number of times a spec variable changed up to the current
        \* state in the trace.
        \* ,_xtModCount |->
        \*     LET F[s \in DOMAIN _TETrace] ==
        \*         IF s = 1 THEN 0
        \*         ELSE IF _TETrace[s].xt # _TETrace[s-1].xt
        \*             THEN 1 + F[s-1] ELSE F[s-1]
        \*     IN F[_TEPosition - 1]
    ]

=============================================================================



Parsing and semantic processing can take forever if the trace below is long.
 In this case, it is advised to uncomment the module below to deserialize the
 trace from a generated binary file.

\*
\*---- MODULE SelfCheck_TETrace ----
\*EXTENDS IOUtils, TLC, SelfCheck
\*
\*trace == IODeserialize("SelfCheck_TTrace_1790574931.bin", TRUE)
\*
\*=============================================================================
\*

---- MODULE SelfCheck_TETrace ----
EXTENDS TLC, SelfCheck

trace == 
    <<
    ([evals |-> <<>>,pc |-> "first",i |-> 1,xt |-> <<0, 0, 0, 0>>,ws |-> <<>>]),
    ([evals |-> <<<<0, 0, 0, 0>>>>,pc |-> "plus",i |-> 1,xt |-> <<0, 0, 0, 0>>,ws |-> <<0, 0, 0, 0>>]),
    ([evals |-> <<<<0, 0, 0, 0>>, <<1, 0, 0, 0>>>>,pc |-> "minus",i |-> 1,xt |-> <<1, 0, 0, 0>>,ws |-> <<1, 0, 0, 0>>]),
    ([evals |-> <<<<0, 0, 0, 0>>, <<1, 0, 0, 0>>, <<-1, 0, 0, 0>>>>,pc |-> "restore",i |-> 1,xt |-> <<-1, 0, 0, 0>>,ws |-> <<-1, 0, 0, 0>>]),
    ([evals |-> <<<<0, 0, 0, 0>>, <<1, 0, 0, 0>>, <<-1, 0, 0, 0>>>>,pc |-> "plus",i |-> 2,xt |-> <<-1, 0, 0, 0>>,ws |-> <<-1, 0, 0, 0>>])
    >>
----


=============================================================================

---- CONFIG SelfCheck_TTrace_1790574931 ----
CONSTANTS
    Dim = 4
    Broken = "norestore"

INVARIANT
    _inv

CHECK_DEADLOCK
    \* CHECK_DEADLOCK off because of PROPERTY or INVARIANT above.
    FALSE

INIT
    _init

NEXT
    _next

CONSTANT
    _TETrace <- _trace

ALIAS
    _expression
=============================================================================
\* Generated on Mon Sep 28 05:55:32 UTC 2026