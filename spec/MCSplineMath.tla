----------------------------- MODULE MCSplineMath -----------------------------
(***************************************************************************)
(* TLC theorems about the mathematical definitions, over a grid of small   *)
(* problems, in exact arithmetic.  The grid is walked as a state machine   *)
(* (one state per grid point) so that every law is an invariant.           *)
(*                                                                         *)
(*  Exists      the defining system is nonsingular                         *)
(*  Defining    the solution has zero residual in every defining equation  *)
(*              (two independent formulations: matrix rows vs polynomial   *)
(*              evaluation of the pieces)                                  *)
(*  Optimal     first-order optimality: the energy's first variation       *)
(*              vanishes for every admissible Hermite variation (one per   *)
(*              interior knot and derivative order 1..s-1).  The energy is *)
(*              a convex quadratic, so this makes the solution THE         *)
(*              minimiser among C^(s-1) piecewise polynomials of degree    *)
(*              2s-1 - the family the classical theorem says contains the  *)
(*              global H^s minimiser.  (C02)                               *)
(*  Book        knot-time bookkeeping laws (C01)                           *)
(*  EnergyLaws  non-negative; sum over coordinates (C04)                   *)
(*  Coordwise   column j of the D-dimensional spline is the 1-D spline of  *)
(*              coordinate j (C13)                                         *)
(*  AdjointOK   the adjoint equals exact central differences of            *)
(*              <gC, C> + <gT, T> in every input (C05), and the energy     *)
(*              gradient equals differences of the energy (C06)            *)
(*  Metamorphic the five laws of C14                                       *)
(*  Variational the closed forms of the analytic energy gradients, for     *)
(*              every order, WITHOUT constants: with H = sum_j -(-1)^j     *)
(*              c_j x^(s-j) x^(s+j) (c_0 = 1, c_j = 2) at the start of a   *)
(*              segment, dE/dT_i = H_i; dE/dP_j = 2 (-1)^s times the jump  *)
(*              of x^(2s-1) at knot j; dE/d(start d-th derivative) =       *)
(*              2 (-1)^(s-d) x^(2s-1-d)(0) and the negative at the end.    *)
(*              (These are what 12 (c3_R - c3_L), -36 c3^2 + 96 c2.c4 -    *)
(*              240 c1.c5, ... in the code must equal.)  (C06)             *)
(***************************************************************************)
EXTENDS SplineAlgo, FiniteSets, SequencesExt

CONSTANTS MaxN,        \* largest segment count on the grid
          Durs,        \* set of duration values (rationals as strings)
          Orders       \* subset of {2, 3, 4}

\* all sequences of length n over set S, as a set
RECURSIVE Seqs(_, _)
Seqs(S, n) == IF n = 0 THEN {<<>>} ELSE {Append(q, x) : q \in Seqs(S, n - 1), x \in S}

\* deterministic small "pseudo-random" integers
Pseudo(a, b, c) == ((a * 7 + b * 13 + c * 29 + a * b * 3 + b * c * 5) - (((a * 7 + b * 13 + c * 29 + a * b * 3 + b * c * 5) \div 11) * 11)) - 5

D2 == 2   \* coordinates of grid problems
MkProblem(s, T, v) ==
    [s |-> s, T |-> T,
     P |-> [j \in 1..(Len(T) + 1) |-> [c \in 1..D2 |-> RFrac(Pseudo(j, c, v), 1 + ((j + c + v) - ((j + c + v) \div 2) * 2))]],
     BS |-> [d \in 1..(s - 1) |-> [c \in 1..D2 |-> RInt(Pseudo(d, c + 3, v))]],
     BE |-> [d \in 1..(s - 1) |-> [c \in 1..D2 |-> RFrac(Pseudo(d + 5, c, v), 2)]],
     t0 |-> RFrac(Pseudo(v, 1, 2), 4)]

Grid == {<<s, T, v>> : s \in Orders, T \in UNION {Seqs(Durs, n) : n \in 1..MaxN}, v \in {1, 2}}

\* one state per grid point: TLC checks every invariant at every point, points spread over its workers
\* (the choice is staged - order, then variant and size, then durations - so that TLC's workers share the points)
VARIABLE pt
Init == pt = <<>>
Next == \/ /\ Len(pt) = 0 /\ \E s \in Orders : pt' = <<s>>
        \/ /\ Len(pt) = 1 /\ \E v \in {1, 2}, n \in 1..MaxN : pt' = <<pt[1], v, n>>
        \/ /\ Len(pt) = 3 /\ pt' = <<pt[1], pt[2], pt[3], <<>>, "partial">>
        \/ /\ Len(pt) = 5 /\ Len(pt[4]) < pt[3] - 1 /\ \E x \in Durs : pt' = [pt EXCEPT ![4] = Append(@, x)]
        \/ /\ Len(pt) = 5 /\ Len(pt[4]) = pt[3] - 1 /\ \E x \in Durs : pt' = <<pt[1], Append(pt[4], x), pt[2], "point">>
IsPoint == Len(pt) = 4
Pr == MkProblem(pt[1], pt[2], pt[3])

Exists == IsPoint => IsNonsingular(DefSystem(pt[1], pt[2]))

Defining == IsPoint => LET pr == Force(Pr)  C == Force(MinCoeffs(pr))  R == AllResiduals(pr, C)
            IN \A q \in 1..Len(R) : R[q].res.num = Zero

(* ------------------------ first-order optimality ---------------------- *)
\* Hermite system of one segment of duration Ti: rows = derivative d (0..s-1) at 0, then at Ti
HermiteSys(s, Ti) ==
    [r \in 1..(2 * s) |->
        LET d == IF r <= s THEN r - 1 ELSE r - s - 1
            tau == IF r <= s THEN Zero ELSE Ti
        IN [j \in 1..(2 * s) |-> LET kk == j - 1 IN IF kk < d THEN Zero ELSE RMul(RInt(FF(kk, d)), RPow(tau, kk - d))]]
\* the polynomial on a segment whose only non-zero Hermite datum is number r (1..2s)
HermiteBasis(s, Ti, r) == SolveVec(HermiteSys(s, Ti), VUnit(2 * s, r))
Cross(x, dl, s, Ti) == PolyInt(PolyMul(PolyDeriv(x, s), PolyDeriv(dl, s)), Ti)
Optimal == IsPoint =>
    LET pr == Force(Pr)  C == Force(MinCoeffs(pr))  s == pr.s  N == NSeg(pr)
    IN \A i \in 1..(N - 1) : \A m \in 1..(s - 1) :
          LET dL == Force(HermiteBasis(s, pr.T[i], s + m + 1))       \* derivative m at the right end of segment i
              dR == Force(HermiteBasis(s, pr.T[i + 1], m + 1))       \* derivative m at the left end of segment i+1
          IN \A col \in 1..D2 :
                RAdd(Cross(SegPoly(C, s, i, col), dL, s, pr.T[i]),
                     Cross(SegPoly(C, s, i + 1, col), dR, s, pr.T[i + 1])) = Zero

Book == IsPoint =>
    LET pr == Force(Pr)  kn == Force(Knots(pr.t0, pr.T))  N == NSeg(pr)
    IN /\ DursOfPoints(kn) = pr.T
       /\ kn[1] = pr.t0
       /\ kn[N + 1] = RAdd(pr.t0, RSum(pr.T))
       /\ \A i \in 1..N : RLt(kn[i], kn[i + 1])

EnergyLaws == IsPoint =>
    LET pr == Force(Pr)  C == Force(MinCoeffs(pr))  e == Force(Energy(C, pr.s, pr.T))
    IN /\ RLe(Zero, e)
       /\ e = RSum([col \in 1..D2 |-> EnergyOfCoord(C, pr.s, pr.T, col)])
       /\ RLe(e, EnergyAbs(C, pr.s, pr.T))

Coordwise == IsPoint =>
    LET pr == Force(Pr)  C == Force(MinCoeffs(pr))
    IN \A col \in 1..D2 :
        LET p1 == [pr EXCEPT !.P = [j \in 1..Len(pr.P) |-> <<pr.P[j][col]>>],
                              !.BS = [d \in 1..Len(pr.BS) |-> <<pr.BS[d][col]>>],
                              !.BE = [d \in 1..Len(pr.BE) |-> <<pr.BE[d][col]>>]]
        IN Col(MinCoeffs(p1), 1) = Col(C, col)

(* ------------------------------ adjoint ------------------------------- *)
Inner(A, B) == RSum([r \in 1..Len(A) |-> RDot(A[r], B[r])])
h == RPow("10", -8)
CD(f(_), pplus, pminus, hh) == RDiv(RSub(f(pplus), f(pminus)), RMul("2", hh))
Near(a, b, scale) == RLe(RAbs(RSub(a, b)), RMul(RPow("10", -9), RMax(scale, One)))
BumpP(p, j, col, e) == [p EXCEPT !.P[j][col] = RAdd(@, e)]
BumpT(p, i, e) == [p EXCEPT !.T[i] = RAdd(@, e)]
BumpBS(p, d, col, e) == [p EXCEPT !.BS[d][col] = RAdd(@, e)]
BumpBE(p, d, col, e) == [p EXCEPT !.BE[d][col] = RAdd(@, e)]

GradOK(pr, f(_), g) ==
    LET s == pr.s  N == NSeg(pr)
        scale == RMaxSeq([i \in 1..N |-> RAbs(g.times[i])])
    IN /\ \A j \in 1..(N + 1) : \A col \in 1..D2 :          \* linear/quadratic in P and B: central differences are exact for any step
             CD(f, BumpP(pr, j, col, One), BumpP(pr, j, col, "-1"), One) = g.points[j][col]
       /\ \A d \in 1..(s - 1) : \A col \in 1..D2 :
             /\ CD(f, BumpBS(pr, d, col, One), BumpBS(pr, d, col, "-1"), One) = g.bs[d][col]
             /\ CD(f, BumpBE(pr, d, col, One), BumpBE(pr, d, col, "-1"), One) = g.be[d][col]
       /\ \A i \in 1..N : Near(CD(f, BumpT(pr, i, h), BumpT(pr, i, RNeg(h)), h), g.times[i], scale)

AdjointOK == IsPoint =>
    LET pr == Force(Pr)  C == Force(MinCoeffs(pr))
        UpC == Force([r \in 1..NUnk(pr) |-> [c \in 1..D2 |-> RFrac(Pseudo(r, c, 4), 3)]])
        UpT == Force([i \in 1..NSeg(pr) |-> RFrac(Pseudo(i, 2, 6), 2)])
        Loss(p) == RAdd(Inner(UpC, MinCoeffs(p)), RDot(UpT, p.T))
        g == Force(Adjoint(pr, C, UpC, UpT))
    IN GradOK(pr, Loss, g)

\* the energy is quadratic in P and B: central differences are exact there too
EnergyGradOK == IsPoint =>
    LET pr == Force(Pr)  C == Force(MinCoeffs(pr))
        EnergyOf(p) == Energy(MinCoeffs(p), p.s, p.T)
        g == Force(EnergyGrad(pr, C))
    IN GradOK(pr, EnergyOf, g)

(* --------------- closed forms of the energy gradient (C06) ------------ *)
Variational == IsPoint =>
    LET pr == Force(Pr)  C == Force(MinCoeffs(pr))  s == pr.s  N == NSeg(pr)
        g == Force(EnergyGrad(pr, C))
        x(i, d, tau, col) == PolyEvalD(SegPoly(C, s, i, col), tau, d)
        sg(n) == RPow("-1", n)
        H(i) == RSum([col \in 1..D2 |-> RSum([j1 \in 1..s |->
                   LET j == j1 - 1
                   IN RMul(RMul(RNeg(sg(j)), IF j = 0 THEN One ELSE "2"), RMul(x(i, s - j, Zero, col), x(i, s + j, Zero, col)))])])
    IN /\ \A i \in 1..N : g.times[i] = H(i)
       \* H is constant along a segment of the minimiser (x^(2s) = 0): the same expression at the end of the segment
       /\ \A i \in 1..N : H(i) = RSum([col \in 1..D2 |-> RSum([j1 \in 1..s |->
                   LET j == j1 - 1
                   IN RMul(RMul(RNeg(sg(j)), IF j = 0 THEN One ELSE "2"), RMul(x(i, s - j, pr.T[i], col), x(i, s + j, pr.T[i], col)))])])
       /\ \A j \in 2..N : \A col \in 1..D2 :
             g.points[j][col] = RMul(RMul("2", sg(s)), RSub(x(j, 2 * s - 1, Zero, col), x(j - 1, 2 * s - 1, pr.T[j - 1], col)))
       /\ \A col \in 1..D2 :
             /\ g.points[1][col] = RMul(RMul("2", sg(s)), x(1, 2 * s - 1, Zero, col))
             /\ g.points[N + 1][col] = RNeg(RMul(RMul("2", sg(s)), x(N, 2 * s - 1, pr.T[N], col)))
       /\ \A d \in 1..(s - 1) : \A col \in 1..D2 :
             /\ g.bs[d][col] = RMul(RMul("2", sg(s - d)), x(1, 2 * s - 1 - d, Zero, col))
             /\ g.be[d][col] = RNeg(RMul(RMul("2", sg(s - d)), x(N, 2 * s - 1 - d, pr.T[N], col)))

(* ----------- the library's own equations and constants (SplineAlgo) --- *)
Algo == IsPoint => LET pr == Force(Pr)  C == Force(MinCoeffs(pr)) IN AlgoEquationsHold(pr, C)

(* ---------------------------- metamorphic ----------------------------- *)
Metamorphic == IsPoint =>
    LET Pr0 == Force(Pr)  C == Force(MinCoeffs(Pr0))
        s == Pr0.s  N == NSeg(Pr0)
        e == Force(Energy(C, s, Pr0.T))
        v == <<"3/2", "-7">>
        a == "3"
        Ctr == Force(MinCoeffs(Translate(Pr0, v)))
        Csc == Force(MinCoeffs(ScaleSpace(Pr0, a)))
        pst == Force(ScaleTime(Pr0, a))
        Cst == Force(MinCoeffs(pst))
        prv == Force(ReverseProblem(Pr0))
        Crv == Force(MinCoeffs(prv))
    IN /\ MinCoeffs(Shift(Pr0, "5/3")) = C                                             \* shift: same local polynomials
       /\ Knots(RAdd(Pr0.t0, "5/3"), Pr0.T) = [j \in 1..(N + 1) |-> RAdd(Knots(Pr0.t0, Pr0.T)[j], "5/3")]
       /\ \A r \in 1..Len(C) : Ctr[r] = (IF (r - 1) - ((r - 1) \div (2 * s)) * 2 * s = 0 THEN VAdd(C[r], v) ELSE C[r])
       /\ Energy(Ctr, s, Pr0.T) = e
       /\ \A r \in 1..Len(C) : Csc[r] = VScale(a, C[r])
       /\ Energy(Csc, s, Pr0.T) = RMul(RSq(a), e)
       /\ \A r \in 1..Len(C) : Cst[r] = VScale(RPow(a, -((r - 1) - ((r - 1) \div (2 * s)) * 2 * s)), C[r])   \* c_k / a^k
       /\ Energy(Cst, s, pst.T) = RMul(RPow(a, -(2 * s - 1)), e)
       /\ Crv = ReverseCoeffs(C, s, Pr0.T)
       /\ Energy(Crv, s, prv.T) = e
       \* the energy gradients transform accordingly
       /\ LET g == Force(EnergyGrad(Pr0, C))
              gtr == Force(EnergyGrad(Translate(Pr0, v), Ctr))
              gsc == Force(EnergyGrad(ScaleSpace(Pr0, a), Csc))
              gst == Force(EnergyGrad(pst, Cst))
              grv == Force(EnergyGrad(prv, Crv))
              SM(f, M) == [i \in 1..Len(M) |-> VScale(f, M[i])]
          IN /\ gtr = g
             /\ gsc.points = SM(a, g.points) /\ gsc.bs = SM(a, g.bs) /\ gsc.be = SM(a, g.be) /\ gsc.times = VScale(RSq(a), g.times)
             /\ gst.points = SM(RPow(a, -(2 * s - 1)), g.points) /\ gst.times = VScale(RPow(a, -(2 * s)), g.times)
             /\ gst.bs = [d \in 1..(s - 1) |-> VScale(RPow(a, d - (2 * s - 1)), g.bs[d])]
             /\ gst.be = [d \in 1..(s - 1) |-> VScale(RPow(a, d - (2 * s - 1)), g.be[d])]
             /\ grv.points = Rev(g.points) /\ grv.times = Rev(g.times)
             /\ grv.bs = [d \in 1..(s - 1) |-> VScale(RPow("-1", d), g.be[d])]
             /\ grv.be = [d \in 1..(s - 1) |-> VScale(RPow("-1", d), g.bs[d])]
=============================================================================
