-------------------------------- MODULE OptMath --------------------------------
(***************************************************************************)
(* What SplineOptimizer computes, stated from its documentation and the    *)
(* property statements C07-C09, in exact arithmetic.                       *)
(*                                                                         *)
(* A configuration cfg is a record                                         *)
(*   s, D, t0            half order, dimension, start time                 *)
(*   T, P, BS, BE        reference problem (as SplineMath)                 *)
(*   flags               <<start_p, start_v, start_a, start_j,             *)
(*                         end_p, end_v, end_a, end_j>>  (booleans)        *)
(*   rho, K              energy weight, trapezoid steps per segment        *)
(*   tm                  [kind |-> "quad"] or [kind |-> "sq", scale |-> r] *)
(*   sm                  [kind |-> "id"] or [kind |-> "lift", gain |-> r,  *)
(*                       pin |-> point index with a single unconstrained   *)
(*                       coordinate, or -1]                                *)
(* A cost description cp holds the parameters of the polynomial functor    *)
(* family of harness/opt_iface.hpp (CostParams) as rationals, plus an      *)
(* optional "lie": a wrong claimed partial derivative.                     *)
(***************************************************************************)
EXTENDS SplineMath, TimeMap

NOf(cfg) == Len(cfg.T)
Flat2(ss0) == LET ss == Force(ss0)  F[i \in 0..Len(ss)] == IF i = 0 THEN <<>> ELSE F[i - 1] \o ss[i] IN F[Len(ss)]

(* ------------------------------- maps --------------------------------- *)
TMapVal(tm, tau) == IF tm.kind = "quad" THEN ToTime(tau) ELSE RMul(tm.scale, RAdd(RSq(tau), One))
TMapD(tm, tau) == IF tm.kind = "quad" THEN DToTime(tau) ELSE RMul(RMul("2", tm.scale), tau)
\* the lift map of the harness: fewer unconstrained than physical coordinates
LiftDof0(D, idx) == IF D - 1 - (idx - (idx \div 2) * 2) > 1 THEN D - 1 - (idx - (idx \div 2) * 2) ELSE 1
LiftDof(cfg, idx) == IF idx = cfg.sm.pin THEN 1 ELSE LiftDof0(cfg.D, idx)
LiftM(j, k) == RFrac(((j + 2 * k) - ((j + 2 * k) \div 3) * 3) - 1, 2)          \* j, k zero-based
DofOf(cfg, idx) == IF cfg.sm.kind = "id" THEN cfg.D ELSE LiftDof(cfg, idx)
\* xi (sequence of dof rationals) -> physical point (sequence of D rationals), idx = global point index 0..N
SMapVal(cfg, xi, idx) ==
    IF cfg.sm.kind = "id" THEN xi
    ELSE LET dof == LiftDof(cfg, idx)
         IN Force([j1 \in 1..cfg.D |->
                IF j1 <= dof THEN xi[j1]
                ELSE RAdd(RMul(cfg.sm.gain, RInt(idx + 1)), RSum([k1 \in 1..dof |-> RMul(LiftM(j1 - 1, k1 - 1), xi[k1])]))])
\* transpose Jacobian applied to a physical gradient
SMapBackS(cfg, g, idx) ==
    IF cfg.sm.kind = "id" THEN g
    ELSE LET dof == LiftDof(cfg, idx)
         IN Force([k1 \in 1..dof |-> RAdd(g[k1], RSum([q \in 1..(cfg.D - dof) |-> RMul(LiftM(dof + q - 1, k1 - 1), g[dof + q])]))])
SMapInv(cfg, p, idx) == IF cfg.sm.kind = "id" THEN p ELSE SubSeq(p, 1, LiftDof(cfg, idx))

(* ------------------------------ layout (C09) -------------------------- *)
\* one time variable per segment; then the spatial variables of each optimised waypoint in index order (inner always,
\* first / last only when flagged); then one block of D per flagged boundary derivative the order actually has
PointOptimised(cfg, idx) == IF idx = 0 THEN cfg.flags[1] ELSE IF idx = NOf(cfg) THEN cfg.flags[5] ELSE TRUE
OptPoints(cfg) == SelectSeq([q \in 1..(NOf(cfg) + 1) |-> q - 1], LAMBDA idx : PointOptimised(cfg, idx))
DerivBlocks(cfg) ==
    LET cand == <<[name |-> "sv", on |-> cfg.flags[2], side |-> "s", d |-> 1],
                  [name |-> "sa", on |-> cfg.flags[3] /\ cfg.s >= 3, side |-> "s", d |-> 2],
                  [name |-> "sj", on |-> cfg.flags[4] /\ cfg.s >= 4, side |-> "s", d |-> 3],
                  [name |-> "ev", on |-> cfg.flags[6], side |-> "e", d |-> 1],
                  [name |-> "ea", on |-> cfg.flags[7] /\ cfg.s >= 3, side |-> "e", d |-> 2],
                  [name |-> "ej", on |-> cfg.flags[8] /\ cfg.s >= 4, side |-> "e", d |-> 3]>>
    IN SelectSeq(cand, LAMBDA b : b.on)
Layout(cfg) ==
    LET pts == OptPoints(cfg)
        offs == LET F[i \in 0..Len(pts)] == IF i = 0 THEN NOf(cfg) ELSE F[i - 1] + DofOf(cfg, pts[i]) IN F
        blocks == DerivBlocks(cfg)
    IN Force([points |-> [i \in 1..Len(pts) |-> [idx |-> pts[i], off |-> offs[i - 1], dof |-> DofOf(cfg, pts[i])]],
              doff |-> offs[Len(pts)],
              blocks |-> blocks,
              total |-> offs[Len(pts)] + Len(blocks) * cfg.D])
Dimension(cfg) == Layout(cfg).total

(* ------------------------------ decode -------------------------------- *)
Seg(x, off, n) == SubSeq(x, off + 1, off + n)      \* off is zero-based
Decode(cfg, x) ==
    LET N == NOf(cfg)  lay == Layout(cfg)
        T == Force([i \in 1..N |-> TMapVal(cfg.tm, x[i])])
        ptOf(idx) == IF \E q \in 1..Len(lay.points) : lay.points[q].idx = idx
                     THEN LET e == lay.points[CHOOSE q \in 1..Len(lay.points) : lay.points[q].idx = idx]
                          IN SMapVal(cfg, Seg(x, e.off, e.dof), idx)
                     ELSE cfg.P[idx + 1]
        P == Force([j \in 1..(N + 1) |-> ptOf(j - 1)])
        blk(side, d) == IF \E q \in 1..Len(lay.blocks) : lay.blocks[q].side = side /\ lay.blocks[q].d = d
                        THEN LET q == CHOOSE q \in 1..Len(lay.blocks) : lay.blocks[q].side = side /\ lay.blocks[q].d = d
                             IN Seg(x, lay.doff + (q - 1) * cfg.D, cfg.D)
                        ELSE (IF side = "s" THEN cfg.BS[d] ELSE cfg.BE[d])
    IN Force([s |-> cfg.s, T |-> T, P |-> P,
              BS |-> [d \in 1..(cfg.s - 1) |-> blk("s", d)], BE |-> [d \in 1..(cfg.s - 1) |-> blk("e", d)], t0 |-> cfg.t0])

\* the decision vector the reference problem corresponds to, given the inverse images of the reference durations
InitialGuess(cfg, taus) ==
    LET lay == Layout(cfg)
        sp == Flat2([q \in 1..Len(lay.points) |-> SMapInv(cfg, cfg.P[lay.points[q].idx + 1], lay.points[q].idx)])
        db == Flat2([q \in 1..Len(lay.blocks) |-> IF lay.blocks[q].side = "s" THEN cfg.BS[lay.blocks[q].d] ELSE cfg.BE[lay.blocks[q].d]])
    IN taus \o sp \o db

(* ------------------------------- costs -------------------------------- *)
Dot(a, b) == RDot(a, b)
Norm2(a) == RDot(a, a)
\* time cost and its TRUE gradient
TimeCostVal(cp, T) ==
    RAdd(RSum([i \in 1..Len(T) |-> RAdd(RMul(cp.ta, T[i]), RMul(cp.tb, RSq(T[i])))]),
         RSum([i \in 1..(Len(T) - 1) |-> RMul(cp.tc, RMul(T[i], T[i + 1]))]))
TimeCostGrad(cp, T) ==
    Force([i \in 1..Len(T) |-> RAdd(RAdd(cp.ta, RMul(RMul("2", cp.tb), T[i])),
                                     RMul(cp.tc, RAdd(IF i > 1 THEN T[i - 1] ELSE Zero, IF i < Len(T) THEN T[i + 1] ELSE Zero)))])
WpCostVal(cp, P) ==
    RSum([i \in 1..Len(P) |-> RMul(RMul(RInt(i), cp.ww), RSum([c \in 1..Len(P[i]) |-> RSq(RSub(P[i][c], cp.wc0))]))])
WpCostGrad(cp, P) ==
    Force([i \in 1..Len(P) |-> [c \in 1..Len(P[i]) |-> RMul(RMul(RMul("2", RInt(i)), cp.ww), RSub(P[i][c], cp.wc0))]])
\* running cost of one sample st = [i (zero-based segment), tg, p, v, a, j, s]
RunVal(cp, st) ==
    RSum(<<RMul(cp.ap, Norm2(st.p)), RMul(cp.av, Norm2(st.v)), RMul(cp.aa, Norm2(st.a)), RMul(cp.aj, Norm2(st.j)), RMul(cp.as, Norm2(st.s)),
           RMul(cp.beta, Dot(st.p, st.v)), RMul(RMul(cp.gamma, st.tg), st.p[1]),
           RMul(RMul(cp.delta, RInt(st.i + 1)), Norm2(st.v)), RMul(cp.eps, RSq(st.tg))>>)
\* TRUE partial derivatives w.r.t. p, v, a, j, s (sequence of five vectors) and w.r.t. explicit (global) time
RunPartials(cp, st) ==
    LET D == Len(st.p)
        e1(x) == [c \in 1..D |-> IF c = 1 THEN x ELSE Zero]
    IN Force([g |-> <<VAdd(VAdd(VScale(RMul("2", cp.ap), st.p), VScale(cp.beta, st.v)), e1(RMul(cp.gamma, st.tg))),
                      VAdd(VAdd(VScale(RMul("2", cp.av), st.v), VScale(cp.beta, st.p)), VScale(RMul(RMul("2", cp.delta), RInt(st.i + 1)), st.v)),
                      VScale(RMul("2", cp.aa), st.a), VScale(RMul("2", cp.aj), st.j), VScale(RMul("2", cp.as), st.s)>>,
              gt |-> RAdd(RMul(cp.gamma, st.p[1]), RMul(RMul("2", cp.eps), st.tg))])
\* CLAIMED partials: the true ones plus the functor's lie (cp.lie_which: 0 none, 3 gp, 4 gv, 5 gt, 6 ga; segment cp.lie_i; component cp.lie_c)
Bumped(v, c, x) == [q \in 1..Len(v) |-> IF q = c THEN RAdd(v[q], x) ELSE v[q]]
RunClaimed(cp, st) ==
    LET tr == RunPartials(cp, st)
        lc == IF cp.lie_c + 1 <= Len(st.p) THEN cp.lie_c + 1 ELSE Len(st.p)
        hit == cp.lie_i = st.i
    IN IF ~hit \/ cp.lie_which \notin {3, 4, 5, 6} THEN tr
       ELSE IF cp.lie_which = 5 THEN [tr EXCEPT !.gt = RAdd(@, cp.lie)]
       ELSE LET slot == IF cp.lie_which = 3 THEN 1 ELSE IF cp.lie_which = 4 THEN 2 ELSE 3
            IN [tr EXCEPT !.g[slot] = Bumped(@, lc, cp.lie)]
TimeClaimed(cp, T) == LET g == TimeCostGrad(cp, T)
                      IN IF cp.lie_which = 1 /\ cp.lie_i + 1 <= Len(T) THEN Bumped(g, cp.lie_i + 1, cp.lie) ELSE g
WpClaimed(cp, P) == LET g == WpCostGrad(cp, P)
                    IN IF cp.lie_which = 2 /\ cp.lie_i + 1 <= Len(P) /\ cp.lie_c + 1 <= Len(P[1])
                       THEN [g EXCEPT ![cp.lie_i + 1] = Bumped(@, cp.lie_c + 1, cp.lie)] ELSE g

(* ------------------- the trapezoid quadrature (C08) ------------------- *)
\* sample k (0..K) of segment i (1-based): local time k T_i / K, global time t0 + elapsed durations + local time,
\* state = derivatives 0..4 of the segment's polynomial (5 = time derivative of the snap, needed for the duration gradient)
SampleOf(pr, C, K, i, k) ==
    LET t == RMul(RFrac(k, K), pr.T[i])
        st(d) == SegEval(C, pr.s, i, t, d)
    IN Force([i |-> i - 1, k |-> k, t |-> t, tg |-> RAdd(RAdd(pr.t0, RSum(SubSeq(pr.T, 1, i - 1))), t),
              p |-> st(0), v |-> st(1), a |-> st(2), j |-> st(3), s |-> st(4), c5 |-> st(5)])
TrapW(K, k) == IF k = 0 \/ k = K THEN "1/2" ELSE One
\* all samples, segment-major
Samples(pr, C, K) == Force([q \in 1..(NSeg(pr) * (K + 1)) |-> LET i == ((q - 1) \div (K + 1)) + 1 IN SampleOf(pr, C, K, i, (q - 1) - (i - 1) * (K + 1))])
IntegralCost(cp, pr, sm, K) ==
    RSum([q \in 1..Len(sm) |-> RMul(RMul(TrapW(K, sm[q].k), RDiv(pr.T[sm[q].i + 1], RInt(K))), RunVal(cp, sm[q]))])
IntegralAbs(cp, pr, sm, K) ==
    RSum([q \in 1..Len(sm) |-> RMul(RMul(TrapW(K, sm[q].k), RDiv(pr.T[sm[q].i + 1], RInt(K))), RAbs(RunVal(cp, sm[q])))])

\* cost = time cost + waypoint cost (three-cost overload) + trapezoid integral + weighted energy (when the weight is positive)
CostParts(cfg, cp, x, three) ==
    LET pr == Force(Decode(cfg, x))
        C == Force(MinCoeffs(pr))
        sm == Samples(pr, C, cfg.K)
        tc == TimeCostVal(cp, pr.T)
        wc == IF three THEN WpCostVal(cp, pr.P) ELSE Zero
        ic == IntegralCost(cp, pr, sm, cfg.K)
        en == IF RLt(Zero, cfg.rho) THEN RMul(cfg.rho, Energy(C, pr.s, pr.T)) ELSE Zero
    IN Force([pr |-> pr, C |-> C, samples |-> sm, time |-> tc, wp |-> wc, integral |-> ic, energy |-> en,
              total |-> RSum(<<tc, wc, ic, en>>),
              abs |-> RSum(<<RAbs(tc), RAbs(wc), IntegralAbs(cp, pr, sm, cfg.K), RAbs(en)>>)])
Cost(cfg, cp, x, three) == CostParts(cfg, cp, x, three).total

(* -------- gradient of the cost w.r.t. the decision vector (C07) ------- *)
(* Assembled from the CLAIMED partial derivatives of the functors (with no *)
(* lie: the true gradient; MCOptMath checks that against exact central     *)
(* differences of Cost).                                                   *)
Grad(cfg, cp, x, three) ==
    LET parts == CostParts(cfg, cp, x, three)
        pr == parts.pr  C == parts.C  sm == parts.samples
        s == pr.s  N == NSeg(pr)  D == cfg.D  K == cfg.K
        cl == Force([q \in 1..Len(sm) |-> RunClaimed(cp, sm[q])])
        w(q) == RMul(TrapW(K, sm[q].k), RDiv(pr.T[sm[q].i + 1], RInt(K)))
        \* upstream w.r.t. the coefficients (durations fixed): sum_samples w * sum_d g_d * d(x^(d)(t))/dc
        gCrun == Force([r \in 1..(2 * s * N) |-> [col \in 1..D |->
                    LET i == ((r - 1) \div (2 * s)) + 1
                        kk == (r - 1) - (i - 1) * 2 * s
                    IN RSum([q1 \in 1..(K + 1) |->
                          LET q == (i - 1) * (K + 1) + q1
                          IN RMul(w(q), RSum([d1 \in 1..5 |->
                                 LET d == d1 - 1 IN IF kk < d THEN Zero
                                    ELSE RMul(cl[q].g[d1][col], RMul(RInt(FF(kk, d)), RPow(sm[q].t, kk - d)))]))])]])
        \* upstream w.r.t. T_i (coefficients fixed): weight, sample position (drift), global time of this and of later segments
        st(q, d1) == IF d1 = 1 THEN sm[q].v ELSE IF d1 = 2 THEN sm[q].a ELSE IF d1 = 3 THEN sm[q].j ELSE IF d1 = 4 THEN sm[q].s ELSE sm[q].c5
        gTrun == Force([i \in 1..N |->
                    RAdd(RSum([q1 \in 1..(K + 1) |->
                            LET q == (i - 1) * (K + 1) + q1
                                al == RFrac(sm[q].k, K)
                                drift == RSum([d1 \in 1..5 |-> Dot(cl[q].g[d1], st(q, d1))])
                            IN RAdd(RMul(RDiv(TrapW(K, sm[q].k), RInt(K)), RunVal(cp, sm[q])),
                                    RMul(RMul(w(q), al), RAdd(drift, cl[q].gt)))]),
                         RSum([q \in 1..Len(sm) |-> IF sm[q].i + 1 > i THEN RMul(w(q), cl[q].gt) ELSE Zero]))])
        useE == RLt(Zero, cfg.rho)
        gC == IF useE THEN LET ec == EnergyPartialC(C, s, pr.T) IN Force([r \in 1..Len(gCrun) |-> VAdd(gCrun[r], VScale(cfg.rho, ec[r]))]) ELSE gCrun
        gT == IF useE THEN VAdd(gTrun, VScale(cfg.rho, EnergyPartialT(C, s, pr.T))) ELSE gTrun
        adj == Force(Adjoint(pr, C, gC, gT))
        dT == VAdd(adj.times, TimeClaimed(cp, pr.T))
        wpg == IF three THEN WpClaimed(cp, pr.P) ELSE [j \in 1..(N + 1) |-> [c \in 1..D |-> Zero]]
        dP == Force([j \in 1..(N + 1) |-> VAdd(adj.points[j], wpg[j])])
        lay == Layout(cfg)
        gtime == [i \in 1..N |-> RMul(dT[i], TMapD(cfg.tm, x[i]))]
        gsp == Flat2([q \in 1..Len(lay.points) |-> SMapBackS(cfg, dP[lay.points[q].idx + 1], lay.points[q].idx)])
        gdb == Flat2([q \in 1..Len(lay.blocks) |-> IF lay.blocks[q].side = "s" THEN adj.bs[lay.blocks[q].d] ELSE adj.be[lay.blocks[q].d]])
    IN Force([grad |-> gtime \o gsp \o gdb, cost |-> parts.total, abs |-> parts.abs, pr |-> pr, C |-> C,
              \* magnitudes for tolerances: |dCost/dphysical| pulled back through |maps|
              dT |-> dT, dP |-> dP])
=============================================================================
