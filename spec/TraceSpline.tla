------------------------------ MODULE TraceSpline ------------------------------
(***************************************************************************)
(* Trace specification for the spline family (Cubic/Quintic/SepticSplineND)*)
(*                                                                         *)
(* Reads a recording made by harness/spline_replay (one ndjson line per    *)
(* call on a real object: arguments + exact result bits as %a strings) and *)
(* steps the specification SplineObj along it.  Every observation is       *)
(* judged, in exact rational arithmetic, against what SplineMath says the  *)
(* abstract state implies.  The specification is written as a MONITOR: a   *)
(* deviating observation does not disable the step, it is appended to      *)
(* `bad` with a property id and a reason code, so one TLC run judges a     *)
(* whole batch of executions (separated by "reset" events).                *)
(*                                                                         *)
(* Environment: TRACE (input ndjson), OUT (result json),                   *)
(*              VJ_MIN=1 compare with the exact dense minimiser,           *)
(*              VJ_GRAD=1 judge gradients against the exact adjoint.       *)
(***************************************************************************)
EXTENDS SplineMath, PPolyMath, SplineObj, Json, IOUtils

Tr == ndJsonDeserialize(IOEnv.TRACE)
JMin == "VJ_MIN" \in DOMAIN IOEnv /\ IOEnv.VJ_MIN = "1"
JGrad == "VJ_GRAD" \in DOMAIN IOEnv /\ IOEnv.VJ_GRAD = "1"
MaxUnk == 40        \* dense exact solves only up to this many unknowns

VARIABLES l,        \* next trace line
          bad,      \* deviations found so far
          stats,    \* counters for the evidence file
          memo,     \* (query, exact input bits) -> exact result bits first observed
          nexec     \* execution counter (number of resets seen)
tvars == <<l, bad, stats, memo, nexec, objs>>

Has(r, f) == f \in DOMAIN r
H(x) == RFromHex(x)
HV(v) == TLCEval([i \in 1..Len(v) |-> RFromHex(v[i])])
HM(m) == TLCEval([i \in 1..Len(m) |-> HV(m[i])])
FinV(v) == \A i \in 1..Len(v) : RIsFiniteHex(v[i])
FinM(m) == \A i \in 1..Len(m) : FinV(m[i])

Tol6 == RPow("10", -6)
Tol9 == RPow("10", -9)
Tol3 == RPow("10", -3)
PhiW == RPow("10", -3)      \* noise-floor factor of the scaled residual in the well-scaled domain (C01, C02)
PhiA == RPow("10", -9)      \* ... over the accepted range (C18)
MinDur == RFromHex("0x1.0624dd2f1a9fcp-10")     \* the double 1e-3

(* ------------------------------ domains (s4) -------------------------- *)
Ratio(T) == RDiv(RMaxSeq(T), LET F[i \in 0..Len(T)] == IF i = 0 THEN T[1] ELSE RMin(F[i - 1], T[i]) IN F[Len(T)])
RProd(T) == LET F[i \in 0..Len(T)] == IF i = 0 THEN One ELSE RMul(F[i - 1], T[i]) IN F[Len(T)]
RMaxRatio(order) == IF order = 3 THEN "1000" ELSE IF order = 5 THEN "20" ELSE "4"
AllPos(T) == \A i \in 1..Len(T) : RLt(Zero, T[i])
InW(order, T) == /\ AllPos(T)
                 /\ RLe(Ratio(T), RMaxRatio(order))
                 /\ RLe(RPow("1/10", Len(T)), RProd(T)) /\ RLe(RProd(T), RPow("10", Len(T)))
InA(T) == Len(T) >= 2 /\ (\A i \in 1..Len(T) : RLe(MinDur, T[i])) /\ RLe(Ratio(T), "100")

(* --------------------- reading a build event -------------------------- *)
SOf(order) == (order + 1) \div 2
\* boundary rows the constructor of the logged arity routes the logged values to (others default to zero)
BcRows(ev, side) ==
    LET s == SOf(ev.order)
        ar == IF Has(ev, "bcar") THEN ev.bcar ELSE 6
        z == [c \in 1..ev.dim |-> Zero]
        f(name) == HV(ev.bc[name])
        v == IF ar = 0 THEN z ELSE f(IF side = "s" THEN "sv" ELSE "ev")
        a == IF ar = 0 \/ ar = 2 THEN z ELSE f(IF side = "s" THEN "sa" ELSE "ea")
        j == IF ar = 0 \/ ar = 2 \/ ar = 4 THEN z ELSE f(IF side = "s" THEN "sj" ELSE "ej")
    IN SubSeq(<<v, a, j>>, 1, s - 1)
ByDurs(ev) == ev.how \in {"ctor_durs", "upd_durs"}
\* the inputs exactly as given (strings), used as memo keys; start time kept separate
InKey(ev) == [order |-> ev.order, dim |-> ev.dim, durs |-> ByDurs(ev),
              times |-> IF ByDurs(ev) THEN ev.T ELSE ev.tp, P |-> ev.P,
              bc |-> IF Has(ev, "bc") THEN ev.bc ELSE <<>>, bcar |-> IF Has(ev, "bcar") THEN ev.bcar ELSE 6]
T0Of(ev) == IF ByDurs(ev) THEN ev.t0 ELSE ev.tp[1]
\* exact durations the inputs denote
InDurs(ev) == IF ByDurs(ev) THEN HV(ev.T) ELSE DursOfPoints(HV(ev.tp))
\* the problem the object must now represent; durations are the ones the object reports (checked against
\* the inputs separately: equal bits for the duration overload, within one ulp for the time-point overload)
ProblemOf(ev) == [s |-> SOf(ev.order), T |-> HV(ev.out.tsegs), P |-> HM(ev.P),
                  BS |-> BcRows(ev, "s"), BE |-> BcRows(ev, "e"), t0 |-> H(T0Of(ev))]

(* ------------------------------ deviations ---------------------------- *)
\* candidates are records with a boolean field ok; the failing ones become deviations
Cand(prop, code, ok, info) == [prop |-> prop, code |-> code, ok |-> ok, info |-> info]
Fails(cands) == SelectSeq(cands, LAMBDA c : ~c.ok)
Mk(c, ev) == [prop |-> c.prop, code |-> c.code, info |-> c.info, line |-> l, exec |-> nexec,
              obj |-> IF Has(ev, "obj") THEN ev.obj ELSE 0]
Devs(cands, ev) == LET f == Fails(cands) IN [i \in 1..Len(f) |-> Mk(f[i], ev)]
Bump(st, key, n) == IF key \in DOMAIN st THEN [st EXCEPT ![key] = @ + n] ELSE st @@ (key :> n)

\* flatten a sequence of sequences
RECURSIVE Flat(_)
Flat(ss) == IF ss = <<>> THEN <<>> ELSE Head(ss) \o Flat(Tail(ss))

(* --------------------------- judging a build -------------------------- *)
UlpOfMax(a, b) == RMul(Eps, RMax(RMax(RAbs(a), RAbs(b)), RPow("2", -1000)))

BookCands(ev, pr) ==
    LET o == ev.out
        N == Len(InDurs(ev))
        ts == HV(o.tsegs)
        cum == HV(o.cum)
        kn == Knots(pr.t0, pr.T)
        big == RMaxSeq([i \in 1..Len(kn) |-> RAbs(kn[i])])
        info == [order |-> ev.order, dim |-> ev.dim, N |-> N, how |-> ev.how]
    IN <<Cand("C01", "book.nseg", o.nseg = N /\ Len(o.tsegs) = N /\ Len(o.cum) = N + 1 /\ o.npts = N + 1 /\ o.init, info),
         Cand("C01", "book.tsegs",
              IF Len(o.tsegs) # N THEN FALSE
              ELSE IF ByDurs(ev) THEN o.tsegs = ev.T
              ELSE \A i \in 1..N : RLe(RAbs(RSub(ts[i], InDurs(ev)[i])), UlpOfMax(H(ev.tp[i]), H(ev.tp[i + 1]))), info),
         Cand("C01", "book.start", o.start = T0Of(ev) /\ (Len(o.cum) >= 1 => o.cum[1] = o.start), info),
         Cand("C01", "book.end", Len(o.cum) = N + 1 => o.end = o.cum[N + 1], info),
         Cand("C01", "book.knots",
              Len(o.cum) = N + 1 =>
                 \A i \in 1..(N + 1) : RLe(RAbs(RSub(cum[i], kn[i])), RMul(RInt(2 * N), RMul(Eps, RMax(big, Tiny)))), info),
         Cand("C01", "book.dur",
              RLe(RAbs(RSub(H(o.dur), RSub(H(o.end), H(o.start)))), UlpOfMax(H(o.end), H(o.start))), info),
         Cand("C01", "book.traj",
              o.tinit /\ o.tnseg = N /\ o.tnc = 2 * pr.s /\ o.bp = o.cum /\ Len(o.coef) = 2 * pr.s * N, info),
         Cand("C01", "book.inputs", o.pts = ev.P /\ o.gdim = ev.dim, info)>>

ResCands(ev, pr, C) ==
    LET R == TLCEval(AllResiduals(pr, C))
        w == TLCEval(InW(ev.order, pr.T))
        a == TLCEval(InA(pr.T))
        rat == IF AllPos(pr.T) THEN RShow(Ratio(pr.T)) ELSE "n/a"
        one(r) ==
            LET rw == ResVal(r.res, PhiW)  ra == ResVal(r.res, PhiA)
                info(x) == [order |-> ev.order, dim |-> ev.dim, N |-> NSeg(pr), kind |-> r.kind, i |-> r.i, d |-> r.d,
                            col |-> r.col, res |-> RShow(x), ratio |-> rat]
            IN (IF w THEN <<Cand(IF r.kind = "cont" THEN "C02" ELSE "C01", "res." \o r.kind, RLe(rw, Tol6), info(rw))>> ELSE <<>>)
               \o (IF a THEN <<Cand("C18", "res." \o r.kind, RLe(ra, Tol3), info(ra))>> ELSE <<>>)
    IN Flat([q \in 1..Len(R) |-> one(R[q])])

\* coefficient-wise agreement with the exact minimiser, in position units (DESIGN s4)
MinCands(ev, pr, C, Cx) ==
    LET s == pr.s  N == NSeg(pr)  D == Dim(pr)
        seg(i, col) ==
            LET ex == SegPoly(Cx, s, i, col)
                im == SegPoly(C, s, i, col)
                mag == RMax(RMaxSeq([k \in 1..(2 * s) |-> RAbs(RMul(ex[k], RPow(pr.T[i], k - 1)))]), PScale(pr, col))
                err == RMaxSeq([k \in 1..(2 * s) |-> RAbs(RMul(RSub(im[k], ex[k]), RPow(pr.T[i], k - 1)))])
            IN Cand("C02", "min.coef", RLe(err, RAdd(RMul(Tol6, mag), Tiny)),
                    [order |-> ev.order, dim |-> ev.dim, N |-> N, i |-> i, col |-> col, err |-> RShow(err), mag |-> RShow(mag)])
    IN [q \in 1..(N * D) |-> LET i == ((q - 1) \div D) + 1 IN seg(i, q - (i - 1) * D)]

BuildCands(ev, pr, C, Cx) ==
    BookCands(ev, pr)
    \o (IF AllPos(pr.T) /\ Len(ev.out.coef) = NUnk(pr) THEN ResCands(ev, pr, C) ELSE <<>>)
    \o (IF Cx # <<>> THEN MinCands(ev, pr, C, Cx) ELSE <<>>)

WantExact(ev, pr) == (JMin \/ JGrad) /\ NUnk(pr) <= MaxUnk /\ InW(ev.order, pr.T)

(* ------------------------------- memo --------------------------------- *)
\* observation of `val` for `key`: first one is remembered, later ones must have identical bits
MemoCand(prop, code, key, val, info) ==
    Cand(prop, code, key \notin DOMAIN memo \/ memo[key] = val, info)
MemoPut(mm, key, val) == IF key \in DOMAIN mm THEN mm ELSE mm @@ (key :> val)

(* ------------------------------- actions ------------------------------ *)
IsEvent(k) == l <= Len(Tr) /\ Tr[l].e = k
Ev == Tr[l]
Advance == l' = l + 1

TrReset ==
    /\ IsEvent("reset")
    /\ Reset
    /\ memo' = << >> /\ nexec' = nexec + 1
    /\ bad' = bad /\ stats' = Bump(stats, "executions", 1)
    /\ Advance

TrBuild ==
    /\ IsEvent("build")
    /\ LET ev == Ev
           ok == ~Has(ev, "exception") /\ FinV(ev.out.tsegs) /\ FinM(ev.out.coef) /\ FinV(ev.out.cum)
                 /\ Len(ev.out.tsegs) = Len(IF ByDurs(ev) THEN ev.T ELSE SubSeq(ev.tp, 2, Len(ev.tp)))
       IN IF ~ok
          THEN /\ bad' = bad \o Devs(<<Cand("C01", "build.failed", FALSE, [order |-> ev.order, dim |-> ev.dim])>>, ev)
               /\ UNCHANGED <<objs, memo>> /\ stats' = Bump(stats, "builds", 1)
          ELSE LET pr == TLCEval(ProblemOf(ev))
                   C == TLCEval(HM(ev.out.coef))
                   pre == IF WantExact(ev, pr) /\ JGrad THEN TLCEval(AdjointPre(pr)) ELSE <<>>
                   Cx == TLCEval(IF pre # <<>> THEN pre.C ELSE IF WantExact(ev, pr) THEN MinCoeffs(pr) ELSE <<>>)
                   key == TLCEval(InKey(ev))
                   kc == <<"coef", key>>                 \* without the start time: C14 (shift) and C10
                   ks == <<"state", key, T0Of(ev)>>
                   vs == [cum |-> ev.out.cum, start |-> ev.out.start, end |-> ev.out.end, dur |-> ev.out.dur]
                   info == [order |-> ev.order, dim |-> ev.dim, N |-> NSeg(pr), how |-> ev.how]
                   cands == TLCEval(BuildCands(ev, pr, C, Cx))
                            \o <<MemoCand("C10", "memo.coef", kc, ev.out.coef, info),
                                 MemoCand("C10", "memo.state", ks, vs, info)>>
               IN /\ Build(ev.obj, [order |-> ev.order, dim |-> ev.dim, key |-> key, t0 |-> T0Of(ev), pr |-> pr,
                                     C |-> C, Cx |-> Cx, pre |-> pre, coefbits |-> ev.out.coef, bp |-> HV(ev.out.cum)],
                           NSeg(pr), ev.how \in {"ctor_durs", "ctor_pts"})
                  /\ bad' = bad \o Devs(cands, ev)
                  /\ memo' = MemoPut(MemoPut(memo, kc, ev.out.coef), ks, vs)
                  /\ stats' = Bump(Bump(Bump(stats, "builds", 1), "judgements", Len(cands)),
                                   IF Cx # <<>> THEN "exact_solves" ELSE "builds_without_exact", 1)
    /\ UNCHANGED nexec
    /\ Advance

\* re-reading the published state must give the bits of the build
TrState ==
    /\ IsEvent("state")
    /\ LET ev == Ev
           o == TLCEval(objs[ev.obj].data)
           cands == <<Cand("C10", "state.coef", ev.out.coef = o.coefbits, [order |-> o.order, dim |-> o.dim])>>
       IN /\ Query(ev.obj, "state")
          /\ bad' = bad \o Devs(cands, ev)
          /\ stats' = Bump(stats, "judgements", 1)
    /\ UNCHANGED <<memo, nexec>>
    /\ Advance

\* value and derivatives at the knots (both sides)
TrKnots ==
    /\ IsEvent("knots")
    /\ LET ev == Ev
           o == TLCEval(objs[ev.obj].data)
           pr == o.pr
           s == pr.s  N == NSeg(pr)  D == Dim(pr)
           w == InW(o.order, pr.T)
           tolp(col) == RAdd(RMul(Tol6, PScale(pr, col)), Tiny)
           told(col, d, Ti) == RAdd(RMul(Tol6, RDiv(PScale(pr, col), RPow(Ti, d))), Tiny)
           close(x, y, t) == RLe(RAbs(RSub(x, y)), t)
           info(code, i, d) == [order |-> o.order, dim |-> o.dim, N |-> N, i |-> i, d |-> d]
           \* position at every knot from the right-continuous global route and from the left (segment route)
           kpos == [i \in 1..(N + 1) |-> Cand("C01", "knot.pos",
                       \A col \in 1..D : close(H(ev.out.kv[i][1][col]), pr.P[i][col], tolp(col)), info("kv", i - 1, 0))]
           lpos == [i \in 1..N |-> Cand("C01", "knot.leftpos",
                       \A col \in 1..D : close(H(ev.out.lv[i][1][col]), pr.P[i + 1][col], tolp(col)), info("lv", i, 0))]
           rpos == [i \in 1..N |-> Cand("C01", "knot.rightpos",
                       \A col \in 1..D : close(H(ev.out.rv[i][1][col]), pr.P[i][col], tolp(col)), info("rv", i - 1, 0))]
           bstart == [d \in 1..(s - 1) |-> Cand("C01", "knot.bcstart",
                       \A col \in 1..D : close(H(ev.out.kv[1][d + 1][col]), pr.BS[d][col], told(col, d, pr.T[1])), info("kv", 0, d))]
           bend == [d \in 1..(s - 1) |-> Cand("C01", "knot.bcend",
                       \A col \in 1..D : /\ close(H(ev.out.kv[N + 1][d + 1][col]), pr.BE[d][col], told(col, d, pr.T[N]))
                                         /\ close(H(ev.out.lv[N][d + 1][col]), pr.BE[d][col], told(col, d, pr.T[N])),
                       info("kv", N, d))]
           \* derivatives 1..s-1 agree from both sides at interior knots (C02, the part visible through evaluate)
           both == [q \in 1..((N - 1) * (s - 1)) |->
                       LET i == ((q - 1) \div (s - 1)) + 1  d == q - (i - 1) * (s - 1)
                       IN Cand("C02", "knot.bothsides",
                              \A col \in 1..D : close(H(ev.out.lv[i][d + 1][col]), H(ev.out.rv[i + 1][d + 1][col]),
                                                      told(col, d, RMin(pr.T[i], pr.T[i + 1]))), info("lr", i, d))]
           sd == Cand("C01", "knot.segdur", Len(ev.out.segdur) = N /\ \A i \in 1..N : H(ev.out.segdur[i]) = RNearest(RSub(o.bp[i + 1], o.bp[i])), info("sd", 0, 0))
           cands == <<sd>> \o (IF w THEN kpos \o lpos \o rpos \o bstart \o bend \o both ELSE <<>>)
       IN /\ Query(ev.obj, "knots")
          /\ bad' = bad \o Devs(cands, ev)
          /\ stats' = Bump(Bump(stats, "knot_queries", 1), "judgements", Len(cands))
    /\ UNCHANGED <<memo, nexec>>
    /\ Advance

\* energy = exact integral of the squared s-th derivative of the PUBLISHED polynomials (any positive durations)
TrEnergy ==
    /\ IsEvent("energy")
    /\ LET ev == Ev
           o == TLCEval(objs[ev.obj].data)
           pr == o.pr
           ex == Energy(o.C, pr.s, pr.T)
           ab == EnergyAbs(o.C, pr.s, pr.T)
           got == H(ev.out.val)
           info == [order |-> o.order, dim |-> o.dim, N |-> NSeg(pr), got |-> RShow(got), want |-> RShow(ex)]
           key == <<"energy", o.key>>
           cands == IF RIsFiniteHex(ev.out.val) /\ AllPos(pr.T)
                    THEN <<Cand("C04", "energy.value", RLe(RAbs(RSub(got, ex)), RAdd(RMul(Tol9, ab), Tiny)), info),
                           Cand("C04", "energy.nonneg", RLe(RNeg(RAdd(RMul(Tol9, ab), Tiny)), got), info),
                           MemoCand("C10", "memo.energy", key, ev.out.val, info)>>
                    ELSE <<Cand("C04", "energy.finite", ~AllPos(pr.T), info)>>
       IN /\ QueryRecord(ev.obj, "energy", ev.out.val)
          /\ bad' = bad \o Devs(cands, ev)
          /\ memo' = MemoPut(memo, key, ev.out.val)
          /\ stats' = Bump(Bump(stats, "energy_queries", 1), "judgements", Len(cands))
    /\ UNCHANGED nexec
    /\ Advance

\* evaluation through the trajectory: exact value of the piece of the LATEST published data (C11), memo (C10)
TrEval ==
    /\ IsEvent("eval")
    /\ LET ev == Ev
           o == TLCEval(objs[ev.obj].data)
           nc == 2 * o.pr.s
           t == H(ev.t)
           want == EvalAt(o.bp, o.C, nc, t, ev.d)
           mag == EvalAbsAt(o.bp, o.C, nc, t, ev.d)
           key == <<"eval", o.key, o.t0, ev.t, ev.d>>
           info == [order |-> o.order, dim |-> o.dim, t |-> ev.t, d |-> ev.d]
           cands == <<Cand("C11", "eval.latest",
                           \A col \in 1..o.dim : WithinUlps(H(ev.out.val[col]), want[col], RAdd(mag[col], Tiny), 64), info),
                      MemoCand("C10", "memo.eval", key, ev.out.val, info)>>
       IN /\ Query(ev.obj, "eval")
          /\ bad' = bad \o Devs(cands, ev)
          /\ memo' = MemoPut(memo, key, ev.out.val)
          /\ stats' = Bump(Bump(stats, "evals", 1), "judgements", Len(cands))
    /\ UNCHANGED nexec
    /\ Advance

(* ------------------------------ gradients ---------------------------- *)
\* |got - want| <= 1e-6 * S + tiny, entry-wise
GClose(got, want, S) == RLe(RAbs(RSub(got, want)), RAdd(RMul(Tol6, S), Tiny))
\* compare a logged Gradients structure with an exact adjoint result
GradCands(prop, code, o, out, g) ==
    LET pr == o.pr  s == pr.s  N == NSeg(pr)  D == Dim(pr)
        info(part, i) == [order |-> o.order, dim |-> o.dim, N |-> N, part |-> part, i |-> i]
        names == <<"v", "a", "j">>
        shape == Len(out.times) = N /\ Len(out.inner) = N - 1 /\ FinV(out.times) /\ FinM(out.inner)
    IN IF ~shape THEN <<Cand(prop, code \o ".shape", FALSE, info("shape", 0))>>
       ELSE [i \in 1..N |-> Cand(prop, code \o ".times", GClose(H(out.times[i]), g.times[i], g.timesS[i]),
                                  info("times", i) @@ [got |-> RShow(H(out.times[i])), want |-> RShow(g.times[i]), S |-> RShow(g.timesS[i])])]
            \o [j \in 1..(N - 1) |-> Cand(prop, code \o ".inner",
                     \A col \in 1..D : GClose(H(out.inner[j][col]), g.points[j + 1][col], g.pointsS[j + 1][col]), info("inner", j))]
            \o <<Cand(prop, code \o ".start.p", \A col \in 1..D : GClose(H(out.gs.p[col]), g.points[1][col], g.pointsS[1][col]), info("start.p", 0)),
                 Cand(prop, code \o ".end.p", \A col \in 1..D : GClose(H(out.ge.p[col]), g.points[N + 1][col], g.pointsS[N + 1][col]), info("end.p", 0))>>
            \o [d \in 1..(s - 1) |-> Cand(prop, code \o ".start." \o names[d],
                     \A col \in 1..D : GClose(H(out.gs[names[d]][col]), g.bs[d][col], g.bsS[d][col]), info("start." \o names[d], d))]
            \o [d \in 1..(s - 1) |-> Cand(prop, code \o ".end." \o names[d],
                     \A col \in 1..D : GClose(H(out.ge[names[d]][col]), g.be[d][col], g.beS[d][col]), info("end." \o names[d], d))]

GradJudged(o) == JGrad /\ o.pre # <<>>

\* propagateGrad(gdC, gdT): exact transpose-Jacobian product (C05); independent of earlier calls (memo, C05/C10)
TrProp ==
    /\ IsEvent("prop")
    /\ LET ev == Ev
           o == TLCEval(objs[ev.obj].data)
           key == <<"prop", o.key, ev.gdC, ev.gdT>>
           info == [order |-> o.order, dim |-> o.dim, N |-> NSeg(o.pr)]
           okin == Len(ev.gdC) = NUnk(o.pr) /\ Len(ev.gdT) = NSeg(o.pr)
           cands == (IF GradJudged(o) /\ okin /\ ~Has(ev, "exception")
                     THEN GradCands("C05", "prop", o, ev.out, TLCEval(AdjointWith(o.pr, o.pre, TLCEval(HM(ev.gdC)), TLCEval(HV(ev.gdT))))) ELSE <<>>)
                    \o <<MemoCand("C05", "memo.prop", key, ev.out, info)>>
       IN /\ Query(ev.obj, "prop")
          /\ bad' = bad \o Devs(cands, ev)
          /\ memo' = MemoPut(memo, key, ev.out)
          /\ stats' = Bump(Bump(Bump(stats, "props", 1), "judgements", Len(cands)), IF GradJudged(o) THEN "props_exact" ELSE "props_memo_only", 1)
    /\ UNCHANGED nexec
    /\ Advance

\* partial gradients of the energy: closed forms of the published coefficients (C06)
TrEPartial ==
    /\ IsEvent("epartial")
    /\ LET ev == Ev
           o == TLCEval(objs[ev.obj].data)
           pr == o.pr  s == pr.s  N == NSeg(pr)  D == Dim(pr)
           wc == TLCEval(EnergyPartialC(o.C, s, pr.T))
           wcA == TLCEval(EnergyPartialCAbs(o.C, s, pr.T))
           wt == TLCEval(EnergyPartialT(o.C, s, pr.T))
           wtA == TLCEval(EnergyPartialTAbs(o.C, s, pr.T))
           info(part, i) == [order |-> o.order, dim |-> o.dim, N |-> N, part |-> part, i |-> i]
           key == <<"epartial", o.key>>
           shape == Len(ev.out.gdC) = 2 * s * N /\ Len(ev.out.gdT) = N /\ FinM(ev.out.gdC) /\ FinV(ev.out.gdT)
           cands == (IF ~shape THEN <<Cand("C06", "epartial.shape", FALSE, info("shape", 0))>>
                     ELSE IF ~AllPos(pr.T) THEN <<>>
                     ELSE [r \in 1..(2 * s * N) |-> Cand("C06", "epartial.coeffs",
                              \A col \in 1..D : RLe(RAbs(RSub(H(ev.out.gdC[r][col]), wc[r][col])), RAdd(RMul(Tol9, wcA[r][col]), Tiny)), info("gdC", r))]
                          \o [i \in 1..N |-> Cand("C06", "epartial.times",
                              RLe(RAbs(RSub(H(ev.out.gdT[i]), wt[i])), RAdd(RMul(Tol9, wtA[i]), Tiny)), info("gdT", i))])
                    \o <<MemoCand("C10", "memo.epartial", key, ev.out, info("memo", 0))>>
       IN /\ Query(ev.obj, "epartial")
          /\ bad' = bad \o Devs(cands, ev)
          /\ memo' = MemoPut(memo, key, ev.out)
          /\ stats' = Bump(Bump(stats, "epartials", 1), "judgements", Len(cands))
    /\ UNCHANGED nexec
    /\ Advance

\* analytic total energy gradients (C06); prop_epartial: propagating the object's own partials reproduces them
TrEGrad ==
    /\ (IsEvent("egrad") \/ IsEvent("prop_epartial"))
    /\ LET ev == Ev
           o == TLCEval(objs[ev.obj].data)
           pr == o.pr
           code == IF ev.e = "egrad" THEN "egrad" ELSE "propepartial"
           key == <<code, o.key>>     \* every access route (struct / reference / parts) must return the same bits
           info == [order |-> o.order, dim |-> o.dim, N |-> NSeg(pr)]
           cands == (IF GradJudged(o) /\ ~Has(ev, "exception")
                     THEN GradCands("C06", code, o, ev.out,
                                    TLCEval(AdjointWith(pr, o.pre, TLCEval(EnergyPartialC(o.Cx, pr.s, pr.T)), TLCEval(EnergyPartialT(o.Cx, pr.s, pr.T))))) ELSE <<>>)
                    \o <<MemoCand("C10", "memo." \o code, key, ev.out, info)>>
       IN /\ Query(ev.obj, IF ev.e = "egrad" THEN "egrad" ELSE "prop")
          /\ bad' = bad \o Devs(cands, ev)
          /\ memo' = MemoPut(memo, key, ev.out)
          /\ stats' = Bump(Bump(Bump(stats, "egrads", 1), "judgements", Len(cands)), IF GradJudged(o) THEN "egrads_exact" ELSE "egrads_memo_only", 1)
    /\ UNCHANGED nexec
    /\ Advance

TrCopy ==
    /\ IsEvent("copy")
    /\ Copy(Ev.dst, Ev.src)
    /\ UNCHANGED <<bad, memo, nexec>> /\ stats' = Bump(stats, "copies", 1)
    /\ Advance
TrAssign ==
    /\ IsEvent("assign")
    /\ Assign(Ev.dst, Ev.src)
    /\ UNCHANGED <<bad, memo, nexec>> /\ stats' = Bump(stats, "assigns", 1)
    /\ Advance
TrDestroy ==
    /\ IsEvent("destroy")
    /\ Destroy(Ev.obj)
    /\ UNCHANGED <<bad, memo, nexec>> /\ stats' = Bump(stats, "destroys", 1)
    /\ Advance

\* harness directives (no library call): comparisons between objects of one execution, judged here
SameCands(ev) ==
    LET a == objs[ev.a].data  b == objs[ev.b].data
        pr == a.pr  s == pr.s  N == NSeg(pr)  D == Dim(pr)
        seg(i, col) ==
            LET x == SegPoly(a.C, s, i, col)  y == SegPoly(b.C, s, i, col)
                mag == RMax(RMaxSeq([k \in 1..(2 * s) |-> RAbs(RMul(x[k], RPow(pr.T[i], k - 1)))]), PScale(pr, col))
                err == RMaxSeq([k \in 1..(2 * s) |-> RAbs(RMul(RSub(x[k], y[k]), RPow(pr.T[i], k - 1)))])
            IN Cand("C01", "same.coef", RLe(err, RAdd(RMul(Tol6, mag), Tiny)),
                    [order |-> a.order, dim |-> a.dim, N |-> N, i |-> i, col |-> col, err |-> RShow(err), mag |-> RShow(mag)])
        big == RMaxSeq([i \in 1..Len(a.bp) |-> RAbs(a.bp[i])])
    IN IF NSeg(b.pr) # N \/ b.order # a.order \/ b.dim # a.dim
       THEN <<Cand("C01", "same.shape", FALSE, [order |-> a.order, dim |-> a.dim, N |-> N])>>
       ELSE (IF InW(a.order, pr.T) THEN [q \in 1..(N * D) |-> LET i == ((q - 1) \div D) + 1 IN seg(i, q - (i - 1) * D)] ELSE <<>>)
            \o <<Cand("C01", "same.knots",
                      \A i \in 1..(N + 1) : RLe(RAbs(RSub(a.bp[i], b.bp[i])), RMul(RInt(4 * N), RMul(Eps, RMax(big, Tiny)))),
                      [order |-> a.order, dim |-> a.dim, N |-> N])>>

TrNote ==
    /\ IsEvent("note")
    /\ LET ev == Ev
           cands == IF Has(ev, "what") /\ ev.what = "same" THEN SameCands(ev) ELSE <<>>
       IN /\ bad' = bad \o Devs(cands, ev)
          /\ stats' = Bump(Bump(stats, "notes", 1), "judgements", Len(cands))
    /\ UNCHANGED <<objs, memo, nexec>>
    /\ Advance

Known == {"prop", "epartial", "egrad", "prop_epartial", "note", "reset", "build", "state", "knots", "energy", "eval", "copy", "assign", "destroy"}
TrUnknown ==
    /\ l <= Len(Tr) /\ Tr[l].e \notin Known
    /\ bad' = bad \o <<[prop |-> "INFRA", code |-> "unknown.event", info |-> [e |-> Tr[l].e], line |-> l, exec |-> nexec, obj |-> 0]>>
    /\ UNCHANGED <<objs, memo, nexec, stats>>
    /\ Advance

TraceInit == /\ l = 1 /\ bad = <<>> /\ stats = [lines |-> Len(Tr)] /\ memo = << >> /\ nexec = 0 /\ ObjInit
TraceNext == TrProp \/ TrEPartial \/ TrEGrad \/ TrNote \/ TrReset \/ TrBuild \/ TrState \/ TrKnots \/ TrEnergy \/ TrEval \/ TrCopy \/ TrAssign \/ TrDestroy \/ TrUnknown
TraceSpec == TraceInit /\ [][TraceNext]_tvars

\* the design module's invariants are evaluated at every step of the trace
TraceInv == ObjInv

\* write the verdict when the whole trace has been consumed
Done == l = Len(Tr) + 1
Emit == Done => JsonSerialize(IOEnv.OUT, [bad |-> bad, stats |-> stats, lines |-> Len(Tr)])
TraceAccepted == TLCGet("stats").diameter - 1 = Len(Tr)
=============================================================================
