------------------------------ MODULE TraceSpline ------------------------------
(***************************************************************************)
(* Trace specification for the spline family (Cubic/Quintic/SepticSplineND)*)
(*                                                                         *)
(* Reads a recording made by harness/spline_replay (one ndjson line per    *)
(* call on a real object: arguments + exact result bits as %a strings) and *)
(* steps the specification SplineObj along it.  Every observation is       *)
(* judged, in exact rational arithmetic, against what SplineMath says the  *)
(* abstract state implies.  The specification is written as a MONITOR: a   *)
(* deviating observation does not disable the step, it is appended to      *)
(* `bad` with a property id and a reason code, so one TLC run judges a     *)
(* whole batch of executions (separated by "reset" events).                *)
(*                                                                         *)
(* Environment: TRACE (input ndjson), OUT (result json),                   *)
(*              VJ_MIN=1 compare with the exact dense minimiser,           *)
(*              VJ_GRAD=1 judge gradients against the exact adjoint.       *)
(***************************************************************************)
EXTENDS SplineMath, PPolyMath, SplineObj, Json, IOUtils

Tr == ndJsonDeserialize(IOEnv.TRACE)
JMin == "VJ_MIN" \in DOMAIN IOEnv /\ IOEnv.VJ_MIN = "1"
JGrad == "VJ_GRAD" \in DOMAIN IOEnv /\ IOEnv.VJ_GRAD = "1"
MaxUnk == 40         \* dense exact solves with arbitrary double durations only up to this many unknowns (entries of the inverse grow fast)
MaxUnkDyadic == IF "VJ_MAXUNK" \in DOMAIN IOEnv THEN RToInt(IOEnv.VJ_MAXUNK) ELSE 150   \* durations on the grid of multiples of 1/16: long splines stay cheap

VARIABLES l,        \* next trace line
          bad,      \* deviations found so far
          stats,    \* counters for the evidence file
          memo,     \* (query, exact input bits) -> exact result bits first observed
          nexec,    \* execution counter (number of resets seen)
          worst,    \* reason code -> largest observed error / tolerance (calibration headroom, reported in the evidence)
          sc,       \* scratch: everything computed for the current step, evaluated ONCE (see Step below)
          obs       \* object id -> last recorded observations (energy, energy gradient), for cross-object comparisons
tvars == <<l, bad, stats, memo, nexec, obs, worst, sc, objs>>
KeepMemo == "VJ_KEEPMEMO" \in DOMAIN IOEnv /\ IOEnv.VJ_KEEPMEMO = "1"
ObsWith(id, field, val) == [i \in DOMAIN obs \cup {id} |->
                               IF i = id THEN (IF id \in DOMAIN obs THEN [f \in DOMAIN obs[id] \ {field} |-> obs[id][f]] ELSE << >>) @@ (field :> val)
                               ELSE obs[i]]
ObsHas(id, field) == id \in DOMAIN obs /\ field \in DOMAIN obs[id]

Has(r, f) == f \in DOMAIN r
H(x) == RFromHex(x)
HV(v) == Force([i \in 1..Len(v) |-> RFromHex(v[i])])
HM(m) == Force([i \in 1..Len(m) |-> HV(m[i])])
FinV(v) == \A i \in 1..Len(v) : RIsFiniteHex(v[i])
FinM(m) == \A i \in 1..Len(m) : FinV(m[i])
Fin3(x) == \A i \in 1..Len(x) : FinM(x[i])

Tol6 == RPow("10", -6)
Tol9 == RPow("10", -9)
Tol3 == RPow("10", -3)
PhiW == RPow("10", -3)      \* noise-floor factor of the scaled residual in the well-scaled domain (C01, C02)
PhiA == RPow("10", -9)      \* ... over the accepted range (C18)
MinDur == RFromHex("0x1.0624dd2f1a9fcp-10")     \* the double 1e-3

(* ------------------------------ domains (s4) -------------------------- *)
Ratio(T) == RDiv(RMaxSeq(T), LET F[i \in 0..Len(T)] == IF i = 0 THEN T[1] ELSE RMin(F[i - 1], T[i]) IN F[Len(T)])
RProd(T) == LET F[i \in 0..Len(T)] == IF i = 0 THEN One ELSE RMul(F[i - 1], T[i]) IN F[Len(T)]
RMaxRatio(order) == IF order = 3 THEN "1000" ELSE IF order = 5 THEN "20" ELSE "4"
AllPos(T) == \A i \in 1..Len(T) : RLt(Zero, T[i])
InW(order, T) == /\ AllPos(T)
                 /\ RLe(Ratio(T), RMaxRatio(order))
                 /\ RLe(RPow("1/10000", Len(T)), RProd(T)) /\ RLe(RProd(T), RPow("200000", Len(T)))   \* overall size: 0.1 ms .. 2 days
InA(T) == Len(T) >= 2 /\ (\A i \in 1..Len(T) : RLe(MinDur, T[i])) /\ RLe(Ratio(T), "100")

(* --------------------- reading a build event -------------------------- *)
SOf(order) == (order + 1) \div 2
\* boundary rows the constructor of the logged arity routes the logged values to (others default to zero)
BcRows(ev, side) ==
    LET s == SOf(ev.order)
        ar == IF Has(ev, "bcar") THEN ev.bcar ELSE 6
        z == [c \in 1..ev.dim |-> Zero]
        f(name) == HV(ev.bc[name])
        v == IF ar = 0 THEN z ELSE f(IF side = "s" THEN "sv" ELSE "ev")
        a == IF ar = 0 \/ ar = 2 THEN z ELSE f(IF side = "s" THEN "sa" ELSE "ea")
        j == IF ar = 0 \/ ar = 2 \/ ar = 4 THEN z ELSE f(IF side = "s" THEN "sj" ELSE "ej")
    IN SubSeq(<<v, a, j>>, 1, s - 1)
ByDurs(ev) == ev.how \in {"ctor_durs", "upd_durs"}
\* the inputs exactly as given (strings), used as memo keys; start time kept separate
InKey(ev) == [order |-> ev.order, dim |-> ev.dim, durs |-> ByDurs(ev),
              times |-> IF ByDurs(ev) THEN ev.T ELSE ev.tp, P |-> ev.P,
              bc |-> IF Has(ev, "bc") THEN ev.bc ELSE <<>>, bcar |-> IF Has(ev, "bcar") THEN ev.bcar ELSE 6]
T0Of(ev) == IF ByDurs(ev) THEN ev.t0 ELSE ev.tp[1]
\* exact durations the inputs denote
InDurs(ev) == IF ByDurs(ev) THEN HV(ev.T) ELSE DursOfPoints(HV(ev.tp))
\* the problem the object must now represent; durations are the ones the object reports (checked against
\* the inputs separately: equal bits for the duration overload, within one ulp for the time-point overload)
ProblemOf(ev) == [s |-> SOf(ev.order), T |-> HV(ev.out.tsegs), P |-> HM(ev.P),
                  BS |-> BcRows(ev, "s"), BE |-> BcRows(ev, "e"), t0 |-> H(T0Of(ev))]

(* ------------------------------ deviations ---------------------------- *)
\* candidates are records with a boolean field ok; the failing ones become deviations
Cand(prop, code, ok, info) == [prop |-> prop, code |-> code, ok |-> ok, info |-> info, m |-> Zero]
\* numeric candidate: err <= tol, remembering err / tol
CandM(prop, code, err, tol, info) == [prop |-> prop, code |-> code, ok |-> RLe(err, tol), info |-> info,
                                      m |-> IF tol = Zero THEN (IF err = Zero THEN Zero ELSE "1000000") ELSE RDiv(err, tol)]
\* fold over the (already evaluated) candidates; every step is forced, or TLC's lazy evaluation makes the fold exponential
UpdWorst(w0, cands0, start) ==
    LET cs == Force(cands0)
        F[i \in 0..Len(cs)] ==
            IF i = 0 THEN w0
            ELSE LET c == cs[i]
                     k == c.prop \o ":" \o c.code
                     w == F[i - 1]
                 IN IF c.m = Zero THEN w
                    ELSE IF k \in DOMAIN w THEN (IF RLt(w[k], c.m) THEN [w EXCEPT ![k] = c.m] ELSE w)
                    ELSE w @@ (k :> c.m)
    IN F[Len(cs)]
Fails(cands) == SelectSeq(cands, LAMBDA c : ~c.ok)
Mk(c, ev) == [prop |-> c.prop, code |-> c.code, info |-> c.info, line |-> l, exec |-> nexec,
              obj |-> IF Has(ev, "obj") THEN ev.obj ELSE 0]
Devs(cands, ev) == LET f == Fails(cands) IN [i \in 1..Len(f) |-> Mk(f[i], ev)]
Bump(st, key, n) == IF key \in DOMAIN st THEN [st EXCEPT ![key] = @ + n] ELSE st @@ (key :> n)

\* flatten a sequence of sequences
RECURSIVE Flat(_)
Flat(ss) == IF ss = <<>> THEN <<>> ELSE Head(ss) \o Flat(Tail(ss))

(* --------------------------- judging a build -------------------------- *)
UlpOfMax(a, b) == RMul(Eps, RMax(RMax(RAbs(a), RAbs(b)), RPow("2", -1000)))

BookCands(ev, pr) ==
    LET o == ev.out
        N == Len(InDurs(ev))
        ts == HV(o.tsegs)
        cum == HV(o.cum)
        kn == Knots(pr.t0, pr.T)
        big == RMaxSeq([i \in 1..Len(kn) |-> RAbs(kn[i])])
        info == [order |-> ev.order, dim |-> ev.dim, N |-> N, how |-> ev.how]
    IN <<Cand("C01", "book.nseg", o.nseg = N /\ Len(o.tsegs) = N /\ Len(o.cum) = N + 1 /\ o.npts = N + 1 /\ o.init, info),
         Cand("C01", "book.tsegs",
              IF Len(o.tsegs) # N THEN FALSE
              ELSE IF ByDurs(ev) THEN o.tsegs = ev.T
              ELSE \A i \in 1..N : RLe(RAbs(RSub(ts[i], InDurs(ev)[i])), UlpOfMax(H(ev.tp[i]), H(ev.tp[i + 1]))), info),
         Cand("C01", "book.start", o.start = T0Of(ev) /\ (Len(o.cum) >= 1 => o.cum[1] = o.start), info),
         Cand("C01", "book.end", Len(o.cum) = N + 1 => o.end = o.cum[N + 1], info),
         Cand("C01", "book.knots",
              Len(o.cum) = N + 1 =>
                 \A i \in 1..(N + 1) : RLe(RAbs(RSub(cum[i], kn[i])), RMul(RInt(2 * N), RMul(Eps, RMax(big, Tiny)))), info),
         Cand("C01", "book.dur",
              RLe(RAbs(RSub(H(o.dur), RSub(H(o.end), H(o.start)))), UlpOfMax(H(o.end), H(o.start))), info),
         Cand("C01", "book.traj",
              o.tinit /\ o.tnseg = N /\ o.tnc = 2 * pr.s /\ o.bp = o.cum /\ Len(o.coef) = 2 * pr.s * N, info),
         Cand("C01", "book.inputs", o.pts = ev.P /\ o.gdim = ev.dim, info)>>

ResCands(ev, pr, C) ==
    LET R == Force(AllResiduals(pr, C))
        w == Force(InW(ev.order, pr.T))
        a == Force(InA(pr.T))
        rat == IF AllPos(pr.T) THEN RShow(Ratio(pr.T)) ELSE "n/a"
        one(r) ==
            LET rw == ResVal(r.res, PhiW)  ra == ResVal(r.res, PhiA)
                info(x) == [order |-> ev.order, dim |-> ev.dim, N |-> NSeg(pr), kind |-> r.kind, i |-> r.i, d |-> r.d,
                            col |-> r.col, res |-> RShow(x), ratio |-> rat]
            IN (IF w THEN <<CandM(IF r.kind = "cont" THEN "C02" ELSE "C01", "res." \o r.kind, rw, Tol6, info(rw))>> ELSE <<>>)
               \o (IF a THEN <<CandM("C18", "res." \o r.kind, ra, Tol3, info(ra))>> ELSE <<>>)
    IN Flat([q \in 1..Len(R) |-> one(R[q])])

\* coefficient-wise agreement with the exact minimiser, in position units (DESIGN s4)
MinCands(ev, pr, C, Cx) ==
    LET s == pr.s  N == NSeg(pr)  D == Dim(pr)
        seg(i, col) ==
            LET ex == SegPoly(Cx, s, i, col)
                im == SegPoly(C, s, i, col)
                mag == RMax(RMaxSeq([k \in 1..(2 * s) |-> RAbs(RMul(ex[k], RPow(pr.T[i], k - 1)))]), PScale(pr, col))
                err == RMaxSeq([k \in 1..(2 * s) |-> RAbs(RMul(RSub(im[k], ex[k]), RPow(pr.T[i], k - 1)))])
            IN CandM("C02", "min.coef", err, RAdd(RMul(Tol6, mag), Tiny),
                    [order |-> ev.order, dim |-> ev.dim, N |-> N, i |-> i, col |-> col, err |-> RShow(err), mag |-> RShow(mag)])
    IN [q \in 1..(N * D) |-> LET i == ((q - 1) \div D) + 1 IN seg(i, q - (i - 1) * D)]

BuildCands(ev, pr, C, Cx) ==
    BookCands(ev, pr)
    \o (IF AllPos(pr.T) /\ Len(ev.out.coef) = NUnk(pr) THEN ResCands(ev, pr, C) ELSE <<>>)
    \o (IF Cx # <<>> THEN MinCands(ev, pr, C, Cx) ELSE <<>>)

SmallDyadic(T) == \A i \in 1..Len(T) : LET x == RMul(T[i], "16") IN RFloor(x) = x
WantExact(ev, pr) == (JMin \/ JGrad) /\ InW(ev.order, pr.T) /\ (NUnk(pr) <= MaxUnk \/ (NUnk(pr) <= MaxUnkDyadic /\ SmallDyadic(pr.T)))

(* ------------------------------- memo --------------------------------- *)
\* observation of `val` for `key`: first one is remembered, later ones must have identical bits
MemoCand(prop, code, key, val, info) ==
    Cand(prop, code, key \notin DOMAIN memo \/ memo[key] = val, info)
MemoPut(mm, key, val) == IF key \in DOMAIN mm THEN mm ELSE mm @@ (key :> val)

(* ------------------------------- actions ------------------------------ *)
(***************************************************************************)
(* TLC re-evaluates a LET definition at EVERY use when the LET occurs in   *)
(* an action (its lazy values are not cached there, because they may       *)
(* mention primed variables).  Every action below therefore computes all   *)
(* it needs in one value-level operator (XxxStep, whose own LETs are       *)
(* cached), stores the result in the scratch variable sc', and the other   *)
(* conjuncts only read sc'.  A step record has: cands (judged candidates), *)
(* st (counter names to bump), memo and obs (their new values), and        *)
(* whatever the SplineObj action needs.                                    *)
(***************************************************************************)
IsEvent(k) == l <= Len(Tr) /\ Tr[l].e = k
Ev == Tr[l]
Advance == l' = l + 1
RECURSIVE BumpAll(_, _)
BumpAll(st, keys) == IF keys = <<>> THEN st ELSE BumpAll(Force(Bump(st, Head(keys), 1)), Tail(keys))
\* bookkeeping common to all steps, reading only sc'
Record ==
    /\ bad' = bad \o Devs(sc'.cands, Ev)
    /\ worst' = UpdWorst(worst, sc'.cands, 1)
    /\ stats' = Bump(BumpAll(stats, sc'.st), "judgements", Len(sc'.cands))
    /\ memo' = sc'.memo
    /\ obs' = sc'.obs
    /\ UNCHANGED nexec
    /\ Advance
StepRec(cands, st, mm, ob) == Force([cands |-> cands, st |-> st, memo |-> mm, obs |-> ob])

TrReset ==
    /\ IsEvent("reset")
    /\ Reset
    /\ memo' = (IF KeepMemo THEN memo ELSE << >>) /\ nexec' = nexec + 1 /\ obs' = << >> /\ sc' = << >>
    /\ bad' = bad /\ stats' = Bump(stats, "executions", 1) /\ UNCHANGED worst
    /\ Advance

BuildStep(ev) ==
    LET ok == ~Has(ev, "exception") /\ FinV(ev.out.tsegs) /\ FinM(ev.out.coef) /\ FinV(ev.out.cum)
              /\ Len(ev.out.tsegs) = Len(IF ByDurs(ev) THEN ev.T ELSE SubSeq(ev.tp, 2, Len(ev.tp)))
    IN IF ~ok
       THEN StepRec(<<Cand("C01", "build.failed", FALSE, [order |-> ev.order, dim |-> ev.dim])>>, <<"builds">>, memo, obs) @@ [ok |-> FALSE]
       ELSE LET pr == Force(ProblemOf(ev))
                C == Force(HM(ev.out.coef))
                pre == Force(IF WantExact(ev, pr) /\ JGrad THEN AdjointPre(pr) ELSE <<>>)
                Cx == Force(IF pre # <<>> THEN pre.C ELSE IF WantExact(ev, pr) THEN MinCoeffs(pr) ELSE <<>>)
                key == Force(InKey(ev))
                kc == <<"coef", key>>                 \* without the start time: C14 (shift) and C10
                ks == <<"state", key, T0Of(ev)>>
                vs == [cum |-> ev.out.cum, start |-> ev.out.start, end |-> ev.out.end, dur |-> ev.out.dur]
                info == [order |-> ev.order, dim |-> ev.dim, N |-> NSeg(pr), how |-> ev.how]
                cands == BuildCands(ev, pr, C, Cx)
                         \o <<MemoCand("C10", "memo.coef", kc, ev.out.coef, info),
                              MemoCand("C10", "memo.state", ks, vs, info)>>
            IN StepRec(cands, <<"builds", IF Cx # <<>> THEN "exact_solves" ELSE "builds_without_exact">>,
                       MemoPut(MemoPut(memo, kc, ev.out.coef), ks, vs), obs)
               @@ [ok |-> TRUE, n |-> NSeg(pr),
                   data |-> [order |-> ev.order, dim |-> ev.dim, key |-> key, t0 |-> T0Of(ev), pr |-> pr,
                             C |-> C, Cx |-> Cx, pre |-> pre, coefbits |-> ev.out.coef, bp |-> HV(ev.out.cum)]]
TrBuild ==
    /\ IsEvent("build")
    /\ sc' = BuildStep(Ev)
    /\ IF sc'.ok THEN Build(Ev.obj, sc'.data, sc'.n, Ev.how \in {"ctor_durs", "ctor_pts"}) ELSE UNCHANGED objs
    /\ Record

\* re-reading the published state must give the bits of the build
StateStep(ev) ==
    LET o == objs[ev.obj].data
    IN StepRec(<<Cand("C10", "state.coef", ev.out.coef = o.coefbits, [order |-> o.order, dim |-> o.dim])>>, <<"state_queries">>, memo, obs)
TrState == IsEvent("state") /\ sc' = StateStep(Ev) /\ Query(Ev.obj, "state") /\ Record

\* value and derivatives at the knots (both sides)
KnotsStep(ev) ==
    LET o == objs[ev.obj].data
        pr == o.pr
        s == pr.s  N == NSeg(pr)  D == Dim(pr)
        w == InW(o.order, pr.T)
        ps == Force([col \in 1..D |-> PScale(pr, col)])
        tolp(col) == RAdd(RMul(Tol6, ps[col]), Tiny)
        told(col, d, Ti) == RAdd(RMul(Tol6, RDiv(ps[col], RPow(Ti, d))), Tiny)
        close(x, y, t) == RLe(RAbs(RSub(x, y)), t)
        \* a NaN/Inf answer fails every judgement of this query; it is never parsed (parsing it would abort the validation)
        fin == Fin3(ev.out.kv) /\ Fin3(ev.out.lv) /\ Fin3(ev.out.rv) /\ FinV(ev.out.segdur)
        \* The right end of piece i is reached through the breakpoints (t0 + cumulative sums, rounded at the magnitude of the start time):
        \* the local time used there is bp[i+1] - bp[i], not the duration T_i the piece was built for.  The difference dt_i is known exactly
        \* and moves the d-th derivative by dt_i x (d+1)-th derivative: that much (x2, plus its natural scale) is added to the tolerance.
        dtL == Force([i \in 1..N |-> RAbs(RSub(RSub(o.bp[i + 1], o.bp[i]), pr.T[i]))])
        nxt == Force([i \in 1..N |-> [d \in 0..(s - 1) |-> IF dtL[i] = Zero THEN [col \in 1..D |-> Zero] ELSE SegEval(o.C, s, i, pr.T[i], d + 1)]])
        xt(col, d, i) == IF dtL[i] = Zero THEN Zero
                         ELSE RMul(RMul("2", dtL[i]), RAdd(RAbs(nxt[i][d][col]), RDiv(ps[col], RPow(pr.T[i], d + 1))))
        info(code, i, d) == [order |-> o.order, dim |-> o.dim, N |-> N, i |-> i, d |-> d]
        kpos == [i \in 1..(N + 1) |-> Cand("C01", "knot.pos",
                    fin /\ \A col \in 1..D : close(H(ev.out.kv[i][1][col]), pr.P[i][col], RAdd(tolp(col), IF i = N + 1 THEN xt(col, 0, N) ELSE Zero)), info("kv", i - 1, 0))]
        lpos == [i \in 1..N |-> Cand("C01", "knot.leftpos",
                    fin /\ \A col \in 1..D : close(H(ev.out.lv[i][1][col]), pr.P[i + 1][col], RAdd(tolp(col), xt(col, 0, i))), info("lv", i, 0))]
        rpos == [i \in 1..N |-> Cand("C01", "knot.rightpos",
                    fin /\ \A col \in 1..D : close(H(ev.out.rv[i][1][col]), pr.P[i][col], tolp(col)), info("rv", i - 1, 0))]
        bstart == [d \in 1..(s - 1) |-> Cand("C01", "knot.bcstart",
                    fin /\ \A col \in 1..D : close(H(ev.out.kv[1][d + 1][col]), pr.BS[d][col], told(col, d, pr.T[1])), info("kv", 0, d))]
        bend == [d \in 1..(s - 1) |-> Cand("C01", "knot.bcend",
                    fin /\ \A col \in 1..D : (close(H(ev.out.kv[N + 1][d + 1][col]), pr.BE[d][col], RAdd(told(col, d, pr.T[N]), xt(col, d, N)))
                                      /\ close(H(ev.out.lv[N][d + 1][col]), pr.BE[d][col], RAdd(told(col, d, pr.T[N]), xt(col, d, N)))),
                    info("kv", N, d))]
        \* derivatives 1..s-1 agree from both sides at interior knots (C02, the part visible through evaluate)
        both == [q \in 1..((N - 1) * (s - 1)) |->
                    LET i == ((q - 1) \div (s - 1)) + 1  d == q - (i - 1) * (s - 1)
                    IN Cand("C02", "knot.bothsides",
                           fin /\ \A col \in 1..D : close(H(ev.out.lv[i][d + 1][col]), H(ev.out.rv[i + 1][d + 1][col]),
                                                   RAdd(told(col, d, RMin(pr.T[i], pr.T[i + 1])), xt(col, d, i))), info("lr", i, d))]
        \* (a segment's duration is the difference of its breakpoints, up to the rounding of however the implementation obtains it)
        sd == Cand("C01", "knot.segdur", fin /\ Len(ev.out.segdur) = N /\ \A i \in 1..N :
                       RLe(RAbs(RSub(H(ev.out.segdur[i]), RSub(o.bp[i + 1], o.bp[i]))), RMul("2", UlpOfMax(o.bp[i + 1], o.bp[i]))), info("sd", 0, 0))
        \* identical bits whatever was asked before and in whatever order the knots are visited (C10); kj = the highest derivative
        \* of the pieces at the knots, which jumps there: evaluation at a knot belongs to the piece that starts at it
        kkey == <<"knots", o.key, o.t0>>
        kval == [kv |-> ev.out.kv, lv |-> ev.out.lv, rv |-> ev.out.rv, kj |-> IF Has(ev.out, "kj") THEN ev.out.kj ELSE <<>>]
        cands == <<sd, MemoCand("C10", "memo.knots", kkey, kval, info("memo", 0, 0))>> \o (IF w THEN kpos \o lpos \o rpos \o bstart \o bend \o both ELSE <<>>)
    IN StepRec(cands, <<"knot_queries">>, MemoPut(memo, kkey, kval), obs)
TrKnots == IsEvent("knots") /\ sc' = KnotsStep(Ev) /\ Query(Ev.obj, "knots") /\ Record

\* energy = exact integral of the squared s-th derivative of the PUBLISHED polynomials (any positive durations)
EnergyStep(ev) ==
    LET o == objs[ev.obj].data
        pr == o.pr
        ex == Force(Energy(o.C, pr.s, pr.T))
        ab == Force(EnergyAbs(o.C, pr.s, pr.T))
        got == IF RIsFiniteHex(ev.out.val) THEN H(ev.out.val) ELSE H("0x0p+0")   \* a NaN/Inf answer is judged by energy.finite, not parsed
        info == [order |-> o.order, dim |-> o.dim, N |-> NSeg(pr), got |-> IF RIsFiniteHex(ev.out.val) THEN RShow(got) ELSE ev.out.val, want |-> RShow(ex)]
        key == <<"energy", o.key>>
        cands == IF RIsFiniteHex(ev.out.val) /\ AllPos(pr.T)
                 THEN <<CandM("C04", "energy.value", RAbs(RSub(got, ex)), RAdd(RMul(Tol9, ab), Tiny), info),
                        Cand("C04", "energy.nonneg", RLe(RNeg(RAdd(RMul(Tol9, ab), Tiny)), got), info),
                        MemoCand("C10", "memo.energy", key, ev.out.val, info)>>
                 ELSE <<Cand("C04", "energy.finite", ~AllPos(pr.T), info)>>
    IN StepRec(cands, <<"energy_queries">>, MemoPut(memo, key, ev.out.val), ObsWith(ev.obj, "energy", ev.out.val))
TrEnergy == IsEvent("energy") /\ sc' = EnergyStep(Ev) /\ Query(Ev.obj, "energy") /\ Record

\* evaluation through the trajectory: exact value of the piece of the LATEST published data (C11), memo (C10)
EvalStep(ev) ==
    LET o == objs[ev.obj].data
        nc == 2 * o.pr.s
        t == H(ev.t)
        want == Force(EvalAt(o.bp, o.C, nc, t, ev.d))
        mag == Force(EvalAbsAt(o.bp, o.C, nc, t, ev.d))
        key == <<"eval", o.key, o.t0, ev.t, ev.d>>
        info == [order |-> o.order, dim |-> o.dim, t |-> ev.t, d |-> ev.d]
        cands == <<Cand("C11", "eval.latest",
                        FinV(ev.out.val) /\ \A col \in 1..o.dim : WithinUlps(H(ev.out.val[col]), want[col], RAdd(mag[col], Tiny), 64), info),
                   MemoCand("C10", "memo.eval", key, ev.out.val, info)>>
    IN StepRec(cands, <<"evals">>, MemoPut(memo, key, ev.out.val), obs)
TrEval == IsEvent("eval") /\ sc' = EvalStep(Ev) /\ Query(Ev.obj, "eval") /\ Record

(* ------------------------------ gradients ---------------------------- *)
\* |got - want| <= 1e-6 * S + tiny, entry-wise
GClose(got, want, S) == RLe(RAbs(RSub(got, want)), RAdd(RMul(Tol6, S), Tiny))
\* compare a logged Gradients structure with an exact adjoint result
\* worst entry of a vector comparison as a numeric candidate
VecCandM(prop, code, got, want, S, info) ==
    LET fr == [c \in 1..Len(want) |-> RDiv(RAbs(RSub(H(got[c]), want[c])), RAdd(RMul(Tol6, S[c]), Tiny))]
    IN CandM(prop, code, RMaxSeq(fr), One, info)
GradCands(prop, code, o, out, g0) ==
    LET g == Force(g0)
        pr == o.pr  s == pr.s  N == NSeg(pr)  D == Dim(pr)
        info(part, i) == [order |-> o.order, dim |-> o.dim, N |-> N, part |-> part, i |-> i]
        names == <<"v", "a", "j">>
        shape == Len(out.times) = N /\ Len(out.inner) = N - 1 /\ FinV(out.times) /\ FinM(out.inner)
    IN IF ~shape THEN <<Cand(prop, code \o ".shape", FALSE, info("shape", 0))>>
       ELSE [i \in 1..N |-> CandM(prop, code \o ".times", RAbs(RSub(H(out.times[i]), g.times[i])), RAdd(RMul(Tol6, g.timesS[i]), Tiny),
                                  info("times", i) @@ [got |-> RShow(H(out.times[i])), want |-> RShow(g.times[i]), S |-> RShow(g.timesS[i])])]
            \o [j \in 1..(N - 1) |-> VecCandM(prop, code \o ".inner", out.inner[j], g.points[j + 1], g.pointsS[j + 1], info("inner", j))]
            \o <<VecCandM(prop, code \o ".start.p", out.gs.p, g.points[1], g.pointsS[1], info("start.p", 0)),
                 VecCandM(prop, code \o ".end.p", out.ge.p, g.points[N + 1], g.pointsS[N + 1], info("end.p", 0))>>
            \o [d \in 1..(s - 1) |-> VecCandM(prop, code \o ".start." \o names[d], out.gs[names[d]], g.bs[d], g.bsS[d], info("start." \o names[d], d))]
            \o [d \in 1..(s - 1) |-> VecCandM(prop, code \o ".end." \o names[d], out.ge[names[d]], g.be[d], g.beS[d], info("end." \o names[d], d))]

GradJudged(o) == JGrad /\ o.pre # <<>>

\* propagateGrad(gdC, gdT): exact transpose-Jacobian product (C05); independent of earlier calls (memo, C05/C10)
PropStep(ev) ==
    LET o == objs[ev.obj].data
        key == <<"prop", o.key, ev.gdC, ev.gdT>>
        info == [order |-> o.order, dim |-> o.dim, N |-> NSeg(o.pr)]
        okin == Len(ev.gdC) = NUnk(o.pr) /\ Len(ev.gdT) = NSeg(o.pr)
        cands == (IF GradJudged(o) /\ okin /\ ~Has(ev, "exception")
                  THEN GradCands("C05", "prop", o, ev.out, Force(AdjointWith(o.pr, o.pre, Force(HM(ev.gdC)), Force(HV(ev.gdT))))) ELSE <<>>)
                 \o <<MemoCand("C05", "memo.prop", key, ev.out, info)>>
    IN StepRec(cands, <<"props", IF GradJudged(o) THEN "props_exact" ELSE "props_memo_only">>, MemoPut(memo, key, ev.out), ObsWith(ev.obj, "prop", ev.out))
TrProp == IsEvent("prop") /\ sc' = PropStep(Ev) /\ Query(Ev.obj, "prop") /\ Record

\* partial gradients of the energy: closed forms of the published coefficients (C06)
EPartialStep(ev) ==
    LET o == objs[ev.obj].data
        pr == o.pr  s == pr.s  N == NSeg(pr)  D == Dim(pr)
        wc == Force(EnergyPartialC(o.C, s, pr.T))
        wcA == Force(EnergyPartialCAbs(o.C, s, pr.T))
        wt == Force(EnergyPartialT(o.C, s, pr.T))
        wtA == Force(EnergyPartialTAbs(o.C, s, pr.T))
        info(part, i) == [order |-> o.order, dim |-> o.dim, N |-> N, part |-> part, i |-> i]
        key == <<"epartial", o.key>>
        shape == Len(ev.out.gdC) = 2 * s * N /\ Len(ev.out.gdT) = N /\ FinM(ev.out.gdC) /\ FinV(ev.out.gdT)
        cands == (IF ~shape THEN <<Cand("C06", "epartial.shape", FALSE, info("shape", 0))>>
                  ELSE IF ~AllPos(pr.T) THEN <<>>
                  ELSE [r \in 1..(2 * s * N) |-> Cand("C06", "epartial.coeffs",
                           \A col \in 1..D : RLe(RAbs(RSub(H(ev.out.gdC[r][col]), wc[r][col])), RAdd(RMul(Tol9, wcA[r][col]), Tiny)), info("gdC", r))]
                       \o [i \in 1..N |-> Cand("C06", "epartial.times",
                           RLe(RAbs(RSub(H(ev.out.gdT[i]), wt[i])), RAdd(RMul(Tol9, wtA[i]), Tiny)), info("gdT", i))])
                 \o <<MemoCand("C10", "memo.epartial", key, ev.out, info("memo", 0))>>
    IN StepRec(cands, <<"epartials">>, MemoPut(memo, key, ev.out), obs)
TrEPartial == IsEvent("epartial") /\ sc' = EPartialStep(Ev) /\ Query(Ev.obj, "epartial") /\ Record

\* analytic total energy gradients (C06); prop_epartial: propagating the object's own partials reproduces them
EGradStep(ev) ==
    LET o == objs[ev.obj].data
        pr == o.pr
        code == IF ev.e = "egrad" THEN "egrad" ELSE "propepartial"
        key == <<code, o.key>>     \* every access route (struct / reference / parts) must return the same bits
        info == [order |-> o.order, dim |-> o.dim, N |-> NSeg(pr)]
        cands == (IF GradJudged(o) /\ ~Has(ev, "exception")
                  THEN GradCands("C06", code, o, ev.out,
                                 Force(AdjointWith(pr, o.pre, Force(EnergyPartialC(o.Cx, pr.s, pr.T)), Force(EnergyPartialT(o.Cx, pr.s, pr.T))))) ELSE <<>>)
                 \o <<MemoCand("C10", "memo." \o code, key, ev.out, info)>>
    IN StepRec(cands, <<"egrads", IF GradJudged(o) THEN "egrads_exact" ELSE "egrads_memo_only">>, MemoPut(memo, key, ev.out), ObsWith(ev.obj, code, ev.out))
TrEGrad == (IsEvent("egrad") \/ IsEvent("prop_epartial")) /\ sc' = EGradStep(Ev)
           /\ Query(Ev.obj, IF Ev.e = "egrad" THEN "egrad" ELSE "prop") /\ Record

Plain(st) == StepRec(<<>>, st, memo, obs)
TrCopy == IsEvent("copy") /\ sc' = Plain(<<"copies">>) /\ Copy(Ev.dst, Ev.src) /\ Record
TrAssign == IsEvent("assign") /\ sc' = Plain(<<"assigns">>) /\ Assign(Ev.dst, Ev.src) /\ Record
TrDestroy == IsEvent("destroy") /\ sc' = Plain(<<"destroys">>) /\ Destroy(Ev.obj) /\ Record

\* harness directives (no library call): comparisons between objects of one execution, judged here
SameCands(ev) ==
    LET a == objs[ev.a].data  b == objs[ev.b].data
        pr == a.pr  s == pr.s  N == NSeg(pr)  D == Dim(pr)
        seg(i, col) ==
            LET x == SegPoly(a.C, s, i, col)  y == SegPoly(b.C, s, i, col)
                mag == RMax(RMaxSeq([k \in 1..(2 * s) |-> RAbs(RMul(x[k], RPow(pr.T[i], k - 1)))]), PScale(pr, col))
                err == RMaxSeq([k \in 1..(2 * s) |-> RAbs(RMul(RSub(x[k], y[k]), RPow(pr.T[i], k - 1)))])
            IN Cand("C01", "same.coef", RLe(err, RAdd(RMul(Tol6, mag), Tiny)),
                    [order |-> a.order, dim |-> a.dim, N |-> N, i |-> i, col |-> col, err |-> RShow(err), mag |-> RShow(mag)])
        big == RMaxSeq([i \in 1..Len(a.bp) |-> RAbs(a.bp[i])])
    IN IF NSeg(b.pr) # N \/ b.order # a.order \/ b.dim # a.dim
       THEN <<Cand("C01", "same.shape", FALSE, [order |-> a.order, dim |-> a.dim, N |-> N])>>
       ELSE (IF InW(a.order, pr.T) THEN [q \in 1..(N * D) |-> LET i == ((q - 1) \div D) + 1 IN seg(i, q - (i - 1) * D)] ELSE <<>>)
            \o <<Cand("C01", "same.knots",
                      \A i \in 1..(N + 1) : RLe(RAbs(RSub(a.bp[i], b.bp[i])), RMul(RInt(4 * N), RMul(Eps, RMax(big, Tiny)))),
                      [order |-> a.order, dim |-> a.dim, N |-> N])>>

\* coefficient matrices X and Y (same shape) agree in position units, relative to the larger of their own magnitude and the data scale
CoefClose(prop, code, pr, X, Y, tol, info) ==
    LET s == pr.s  N == NSeg(pr)  D == Len(X[1])
        seg(i, col) ==
            LET x == SegPoly(X, s, i, col)  y == SegPoly(Y, s, i, col)
                mag == RMax(RMaxSeq([k \in 1..(2 * s) |-> RAbs(RMul(x[k], RPow(pr.T[i], k - 1)))]), RMaxSeq([j \in 1..(N + 1) |-> RAbs(x[1])]))
                err == RMaxSeq([k \in 1..(2 * s) |-> RAbs(RMul(RSub(x[k], y[k]), RPow(pr.T[i], k - 1)))])
            IN Cand(prop, code, RLe(err, RAdd(RMul(tol, mag), Tiny)), info @@ [i |-> i, col |-> col, err |-> RShow(err), mag |-> RShow(mag)])
    IN [q \in 1..(N * D) |-> LET i == ((q - 1) \div D) + 1 IN seg(i, q - (i - 1) * D)]
ColOf(M, j) == Force([r \in 1..Len(M) |-> <<M[r][j]>>])
Tol12 == RPow("10", -12)
RelClose(x, y, tol) == RLe(RAbs(RSub(x, y)), RAdd(RMul(tol, RMax(RAbs(x), RAbs(y))), Tiny))

\* C13: column j of the D-dimensional object a is the 1-D object b
CoordCands(ev) ==
    LET a == Force(objs[ev.a].data)  b == Force(objs[ev.b].data)
        info == [order |-> a.order, dim |-> a.dim, N |-> NSeg(a.pr), coord |-> ev.j]
    IN IF b.dim # 1 \/ NSeg(b.pr) # NSeg(a.pr) \/ a.order # b.order THEN <<Cand("C13", "coord.shape", FALSE, info)>>
       ELSE CoefClose("C13", "coord.coef", a.pr, ColOf(a.C, ev.j), b.C, Tol6, info)
            \o (IF ObsHas(ev.a, "prop") /\ ObsHas(ev.b, "prop")
                THEN LET ga == obs[ev.a].prop  gb == obs[ev.b].prop
                         nm == IF a.order = 3 THEN <<"p", "v">> ELSE IF a.order = 5 THEN <<"p", "v", "a">> ELSE <<"p", "v", "a", "j">>
                         mg == RMaxSeq([r \in 1..Len(ga.inner) |-> RAbs(H(ga.inner[r][ev.j]))] \o <<RAbs(H(ga.gs.p[ev.j])), RAbs(H(ga.ge.p[ev.j]))>>)
                         cl(x, y) == RLe(RAbs(RSub(H(x), H(y))), RAdd(RMul(Tol6, RMax(mg, RAbs(H(y)))), Tiny))
                     IN <<Cand("C13", "coord.grad.inner", \A r \in 1..Len(ga.inner) : cl(ga.inner[r][ev.j], gb.inner[r][1]), info),
                          Cand("C13", "coord.grad.boundary",
                               \A q \in 1..Len(nm) : cl(ga.gs[nm[q]][ev.j], gb.gs[nm[q]][1]) /\ cl(ga.ge[nm[q]][ev.j], gb.ge[nm[q]][1]), info)>>
                ELSE <<>>)
\* C13: energy and duration gradients of a are the sums over the 1-D parts
SumCands(ev) ==
    LET a == Force(objs[ev.a].data)
        info == [order |-> a.order, dim |-> a.dim, N |-> NSeg(a.pr)]
        parts == ev.parts
        en == IF ObsHas(ev.a, "energy") /\ \A q \in 1..Len(parts) : ObsHas(parts[q], "energy")
              THEN LET tot == RSum([q \in 1..Len(parts) |-> H(obs[parts[q]].energy)])
                       ab == EnergyAbs(a.C, a.pr.s, a.pr.T)
                   IN <<Cand("C13", "sum.energy", RLe(RAbs(RSub(H(obs[ev.a].energy), tot)), RAdd(RMul(Tol9, ab), Tiny)), info),
                        Cand("C04", "energy.coordsum", RLe(RAbs(RSub(H(obs[ev.a].energy), tot)), RAdd(RMul(Tol9, ab), Tiny)), info)>>
              ELSE <<>>
        tg(field, code) ==
              IF ObsHas(ev.a, field) /\ \A q \in 1..Len(parts) : ObsHas(parts[q], field)
              THEN LET N == NSeg(a.pr)
                       tot == [i \in 1..N |-> RSum([q \in 1..Len(parts) |-> H(obs[parts[q]][field].times[i])])]
                       mg == [i \in 1..N |-> RSum([q \in 1..Len(parts) |-> RAbs(H(obs[parts[q]][field].times[i]))])]
                   IN <<Cand("C13", code, \A i \in 1..N : RLe(RAbs(RSub(H(obs[ev.a][field].times[i]), tot[i])), RAdd(RMul(Tol6, RMax(mg[i], RMaxSeq(mg))), Tiny)), info)>>
              ELSE <<>>
    IN en \o tg("egrad", "sum.egrad.times") \o tg("prop", "sum.prop.times")
\* C13: b was built from the inputs of a with coordinates permuted: b[:, j] = a[:, perm[j]]
PermCands(ev) ==
    LET a == Force(objs[ev.a].data)  b == Force(objs[ev.b].data)
        info == [order |-> a.order, dim |-> a.dim, N |-> NSeg(a.pr)]
        pm == ev.perm
        Ap == Force([r \in 1..Len(a.C) |-> [j \in 1..a.dim |-> a.C[r][pm[j]]]])
    IN CoefClose("C13", "perm.coef", a.pr, Ap, b.C, Tol12, info)
       \o (IF ObsHas(ev.a, "energy") /\ ObsHas(ev.b, "energy")
           THEN <<Cand("C13", "perm.energy", RelClose(H(obs[ev.a].energy), H(obs[ev.b].energy), Tol12), info)>> ELSE <<>>)
\* C14: b was built from a transformed problem
XformCands(ev) ==
    LET a == Force(objs[ev.a].data)  b == Force(objs[ev.b].data)
        pr == a.pr  s == pr.s  N == NSeg(pr)  D == Dim(pr)
        info == [order |-> a.order, dim |-> a.dim, N |-> N, kind |-> ev.kind]
        kOf(r) == (r - 1) - ((r - 1) \div (2 * s)) * 2 * s
        ea == IF ObsHas(ev.a, "energy") /\ ObsHas(ev.b, "energy") THEN <<H(obs[ev.a].energy), H(obs[ev.b].energy)>> ELSE <<>>
        eab == EnergyAbs(a.C, s, pr.T)
        en(f) == IF ea = <<>> THEN <<>> ELSE <<Cand("C14", "xform.energy." \o ev.kind, RLe(RAbs(RSub(ea[2], RMul(f, ea[1]))), RAdd(RMul(Tol6, RMul(RAbs(f), eab)), Tiny)), info)>>
    IN CASE ev.kind = "shift" ->
              <<Cand("C14", "shift.coefbits", a.coefbits = b.coefbits, info),
                Cand("C14", "shift.knots",
                     \A i \in 1..(N + 1) : RLe(RAbs(RSub(b.bp[i], RAdd(a.bp[i], H(ev.dt)))),
                                                RMul(RInt(4 * N + 4), RMul(Eps, RMax(RMax(RAbs(a.bp[i]), RAbs(b.bp[i])), RAbs(H(ev.dt)))))), info)>>
              \o (IF ea = <<>> THEN <<>> ELSE <<Cand("C14", "shift.energybits", obs[ev.a].energy = obs[ev.b].energy, info)>>)
              \o (IF ObsHas(ev.a, "egrad") /\ ObsHas(ev.b, "egrad") THEN <<Cand("C14", "shift.egradbits", obs[ev.a].egrad = obs[ev.b].egrad, info)>> ELSE <<>>)
         [] ev.kind = "translate" ->
              CoefClose("C14", "xform.coef.translate", pr,
                        Force([r \in 1..Len(a.C) |-> IF kOf(r) = 0 THEN VAdd(a.C[r], HV(ev.v)) ELSE a.C[r]]), b.C, Tol6, info) \o en(One)
         [] ev.kind = "scale" ->
              CoefClose("C14", "xform.coef.scale", pr, Force([r \in 1..Len(a.C) |-> VScale(H(ev.f), a.C[r])]), b.C, Tol6, info) \o en(RSq(H(ev.f)))
         [] ev.kind = "tscale" ->
              CoefClose("C14", "xform.coef.tscale", b.pr, Force([r \in 1..Len(a.C) |-> VScale(RPow(H(ev.f), -kOf(r)), a.C[r])]), b.C, Tol6, info)
              \o en(RPow(H(ev.f), -(2 * s - 1)))
         [] ev.kind = "reverse" ->
              CoefClose("C14", "xform.coef.reverse", b.pr, ReverseCoeffs(a.C, s, pr.T), b.C, Tol6, info) \o en(One)
         [] OTHER -> <<Cand("INFRA", "xform.unknown", FALSE, info)>>

NoteStep(ev) ==
    LET cands == IF ~Has(ev, "what") THEN <<>>
                 ELSE CASE ev.what = "same" -> SameCands(ev)
                        [] ev.what = "coord" -> CoordCands(ev)
                        [] ev.what = "sum" -> SumCands(ev)
                        [] ev.what = "perm" -> PermCands(ev)
                        [] ev.what = "xform" -> XformCands(ev)
                        [] OTHER -> <<>>
    IN StepRec(cands, <<"notes">>, memo, obs)
TrNote == IsEvent("note") /\ sc' = NoteStep(Ev) /\ UNCHANGED objs /\ Record

Known == {"prop", "epartial", "egrad", "prop_epartial", "note", "reset", "build", "state", "knots", "energy", "eval", "copy", "assign", "destroy"}
TrUnknown ==
    /\ l <= Len(Tr) /\ Tr[l].e \notin Known
    /\ bad' = bad \o <<[prop |-> "INFRA", code |-> "unknown.event", info |-> [e |-> Tr[l].e], line |-> l, exec |-> nexec, obj |-> 0]>>
    /\ UNCHANGED <<objs, memo, nexec, stats, obs, worst, sc>>
    /\ Advance

TraceInit == /\ sc = << >> /\ worst = << >> /\ obs = << >> /\ l = 1 /\ bad = <<>> /\ stats = [lines |-> Len(Tr)] /\ memo = << >> /\ nexec = 0 /\ ObjInit
TraceNext == TrProp \/ TrEPartial \/ TrEGrad \/ TrNote \/ TrReset \/ TrBuild \/ TrState \/ TrKnots \/ TrEnergy \/ TrEval \/ TrCopy \/ TrAssign \/ TrDestroy \/ TrUnknown
TraceSpec == TraceInit /\ [][TraceNext]_tvars

\* the design module's invariants are evaluated at every step of the trace
TraceInv == ObjInv

\* write the verdict when the whole trace has been consumed
Done == l = Len(Tr) + 1
Emit == Done => JsonSerialize(IOEnv.OUT, [bad |-> bad, stats |-> stats, lines |-> Len(Tr),
                                           worst |-> [k \in DOMAIN worst |-> RShow(worst[k])]])
TraceAccepted == TLCGet("stats").diameter - 1 = Len(Tr)
=============================================================================
