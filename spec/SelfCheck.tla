------------------------------- MODULE SelfCheck -------------------------------
(***************************************************************************)
(* The gradient self-check procedure (checkGradients) as a state machine:  *)
(*   evaluate at x (analytic gradient); for every component i: perturb     *)
(*   +eps, evaluate, perturb -eps, evaluate, restore; finally evaluate at  *)
(*   x again.  The workspace always holds the spline of the vector last    *)
(*   evaluated.  TLC checks: every component gets exactly one + and one -  *)
(*   evaluation at the right vectors, the working vector is restored after *)
(*   every component, and the final workspace state is that of x (C19).    *)
(***************************************************************************)
EXTENDS Integers, Sequences

CONSTANTS Dim, Broken     \* Broken = "norestore": forgets x_temp(i) = old_val ; "nofinal": no final re-evaluation
VARIABLES pc, i, xt, ws, evals
vars == <<pc, i, xt, ws, evals>>

X0 == [q \in 1..Dim |-> 0]                      \* the checked vector (offsets from it are what matters)
Init == pc = "first" /\ i = 1 /\ xt = X0 /\ ws = <<>> /\ evals = <<>>
Eval(v) == ws' = v /\ evals' = Append(evals, v)
Next ==
    \/ pc = "first" /\ Eval(X0) /\ pc' = "plus" /\ UNCHANGED <<i, xt>>
    \/ pc = "plus" /\ i <= Dim /\ xt' = [xt EXCEPT ![i] = @ + 1] /\ Eval(xt') /\ pc' = "minus" /\ UNCHANGED i
    \/ pc = "minus" /\ xt' = [xt EXCEPT ![i] = @ - 2] /\ Eval(xt') /\ pc' = "restore" /\ UNCHANGED i
    \/ pc = "restore" /\ xt' = (IF Broken = "norestore" THEN xt ELSE [xt EXCEPT ![i] = @ + 1]) /\ i' = i + 1 /\ pc' = "plus" /\ UNCHANGED <<ws, evals>>
    \/ pc = "plus" /\ i > Dim /\ (IF Broken = "nofinal" THEN UNCHANGED <<ws, evals>> ELSE Eval(X0)) /\ pc' = "done" /\ UNCHANGED <<i, xt>>
    \/ pc = "done" /\ UNCHANGED vars
Spec == Init /\ [][Next]_vars

Unit(k, s) == [q \in 1..Dim |-> IF q = k THEN s ELSE 0]
Restored == pc = "plus" => xt = X0
PerturbsOneComponent == \A n \in 1..Len(evals) : \E k \in 0..Dim, s \in {-1, 0, 1} : evals[n] = (IF k = 0 THEN X0 ELSE Unit(k, s))
AtEnd == pc = "done" =>
            /\ ws = X0
            /\ Len(evals) = 2 * Dim + 2
            /\ \A k \in 1..Dim : evals[2 * k] = Unit(k, 1) /\ evals[2 * k + 1] = Unit(k, -1)
Inv == Restored /\ PerturbsOneComponent /\ AtEnd
=============================================================================
