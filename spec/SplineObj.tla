------------------------------- MODULE SplineObj -------------------------------
(***************************************************************************)
(* Spline objects as a state machine: one action per public call.          *)
(*                                                                         *)
(* Abstract state of an object = the latest inputs (`data`).  Everything a *)
(* caller can observe must be a function of `data` alone (C10, C11, C15).  *)
(* The HIDDEN state that could break this is modelled explicitly:          *)
(*   fac  - factorisation cache of the forward solve, reused by the        *)
(*          adjoint (cubic: c' and 1/denominators, always N+1 entries;     *)
(*          quintic/septic: D^-1, U, L blocks, one per interior knot, and  *)
(*          the solver RETURNS BEFORE RESIZING when there is no interior   *)
(*          knot, leaving the entries of an earlier, larger problem);      *)
(*   sol  - knot derivatives (N+1 rows), tp - time powers (N rows)         *)
(*   traj - the published piecewise polynomial and its lazy derivative     *)
(*          cache (trajEpoch / derivCacheEpoch)                            *)
(* each entry tagged with the epoch (build number) that wrote it.  A read  *)
(* of an entry written in an earlier epoch is a stale read.                *)
(*                                                                         *)
(* `data` is opaque here: small model values when TLC explores the module  *)
(* exhaustively (MCSplineObj), full problem records when a recorded trace  *)
(* of the implementation is validated (TraceSpline).                       *)
(***************************************************************************)
EXTENDS Integers, Sequences, TLC

VARIABLE objs      \* live object id -> record

ObjInit == objs = << >>
Live == DOMAIN objs

Fam(data) == data.order       \* 3, 5 or 7
Tags(n, e) == [i \in 1..n |-> e]

\* what the forward solve writes, per family
FacAfterBuild(old, order, N, e) ==
    IF order = 3 THEN Tags(N + 1, e)
    ELSE IF N - 1 > 0 THEN Tags(N - 1, e)
    ELSE old                                  \* early return: cache left as it was

\* which entries of fac the adjoint (propagateGrad) reads
FacReads(o) == IF Fam(o.data) = 3 THEN 1..Len(o.fac)     \* the cubic back-substitution runs over the cache's own size
               ELSE 1..(o.n - 1)

Build(id, data, N, isCtor) ==
    LET old == IF id \in Live /\ ~isCtor THEN objs[id]
               ELSE [data |-> data, n |-> 0, epoch |-> 0, fac |-> <<>>, sol |-> <<>>, tp |-> <<>>,
                     trajEpoch |-> 0, derivCacheEpoch |-> -1, stale |-> FALSE, last |-> <<>>]
        e == old.epoch + 1
        new == [data |-> data, n |-> N, epoch |-> e,
                fac |-> FacAfterBuild(old.fac, data.order, N, e),
                sol |-> Tags(N + 1, e), tp |-> Tags(N, e),
                trajEpoch |-> e,               \* initializePPoly: trajectory_.update(...)
                derivCacheEpoch |-> -1,        \* ... which invalidates the lazy derivative cache
                stale |-> old.stale, last |-> <<"build">>]
    IN objs' = [i \in Live \cup {id} |-> IF i = id THEN new ELSE objs[i]]

\* a query reads hidden state; `stale` latches if anything read was written in an earlier epoch
ReadsOK(o, kind) ==
    CASE kind = "prop" -> /\ \A i \in FacReads(o) : i <= Len(o.fac) /\ o.fac[i] = o.epoch
                          /\ (Fam(o.data) = 3 => Len(o.fac) = o.n + 1)
                          /\ \A i \in 1..Len(o.sol) : o.sol[i] = o.epoch
                          /\ Len(o.sol) = o.n + 1 /\ Len(o.tp) = o.n
      [] kind \in {"energy", "egrad", "epartial"} -> Len(o.tp) = o.n /\ \A i \in 1..Len(o.tp) : o.tp[i] = o.epoch
      [] kind \in {"eval", "knots", "tseq", "length"} ->
             o.trajEpoch = o.epoch /\ o.derivCacheEpoch \in {-1, o.trajEpoch}
      [] OTHER -> o.trajEpoch = o.epoch

Query(id, kind) ==
    /\ id \in Live
    /\ objs' = [objs EXCEPT ![id] =
                   [@ EXCEPT !.stale = @ \/ ~ReadsOK(objs[id], kind),
                             !.last = <<kind>>,
                             \* evaluation fills the lazy derivative cache from the current trajectory
                             !.derivCacheEpoch = IF kind \in {"eval", "knots", "length"} /\ @ = -1 THEN objs[id].trajEpoch ELSE @]]
QueryRecord(id, kind, val) == Query(id, kind)

Copy(dst, src) ==
    /\ src \in Live
    /\ objs' = [i \in Live \cup {dst} |-> IF i = dst THEN [objs[src] EXCEPT !.last = <<"copy">>] ELSE objs[i]]
Assign(dst, src) == Copy(dst, src)
Destroy(id) ==
    /\ id \in Live
    /\ objs' = [i \in Live \ {id} |-> objs[i]]
Reset == objs' = << >>

(* ------------------------------ invariants ---------------------------- *)
\* no query has ever observed hidden state written for an earlier problem
ReadsFresh == \A i \in Live : ~objs[i].stale
\* sizes of the always-rewritten buffers follow the latest problem
SizesFollowInputs == \A i \in Live : Len(objs[i].sol) = objs[i].n + 1 /\ Len(objs[i].tp) = objs[i].n
\* the published trajectory is the one of the latest build and its lazy cache is empty or current
TrajCurrent == \A i \in Live : objs[i].trajEpoch = objs[i].epoch /\ objs[i].derivCacheEpoch \in {-1, objs[i].trajEpoch}
ObjInv == ReadsFresh /\ SizesFollowInputs /\ TrajCurrent
=============================================================================
