SPECIFICATION Spec
CONSTANTS
  StaticLimit = 2
  Ids = {1, 2}
  Fixed = 0
  Ncs = {1, 2, 3}
  Segs = {1, 2}
  Versions = {1, 2}
  MaxOps = 3
  Emit = FALSE
  Broken = "none"
INVARIANT Inv
CONSTRAINT EmitScripts
VIEW View
CHECK_DEADLOCK FALSE
