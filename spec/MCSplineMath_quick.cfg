INIT Init
NEXT Next
CONSTANTS
  MaxN = 3
  Durs = {"1/2", "1", "2"}
  Orders = {2, 3, 4}
INVARIANTS Exists Defining Optimal Book EnergyLaws Coordwise AdjointOK EnergyGradOK Metamorphic Variational Algo
CHECK_DEADLOCK FALSE
