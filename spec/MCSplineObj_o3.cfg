SPECIFICATION Spec
CONSTANTS
  Ids = {1, 2}
  Sizes = {1, 2, 3}
  Variants = {1, 2}
  Order = 3
  MaxOps = 4
  Emit = FALSE
  Broken = "none"
INVARIANT Inv
CONSTRAINT EmitScripts
VIEW View
CHECK_DEADLOCK FALSE
