SPECIFICATION Spec
CONSTANTS
  Ids = {1, 2}
  Maps = {1}
  MaxOps = 4
  Emit = FALSE
  Broken = "none"
INVARIANT Inv
CONSTRAINT EmitScripts
VIEW View
CHECK_DEADLOCK FALSE
