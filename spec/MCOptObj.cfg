SPECIFICATION Spec
CONSTANTS
  Ids = {1, 2}
  Maps = {1}
  MaxOps = 4
  Emit = FALSE
  Broken = "none"
  Alphabet = {"new", "init_empty", "destroy", "get_dim", "init_guess", "init", "flags", "smap", "tmap", "evaluate", "copy", "assign", "map_new", "map_mutate"}
  ProblemIds = {1, 2, 3}
INVARIANT Inv
CONSTRAINT EmitScripts
VIEW View
CHECK_DEADLOCK FALSE
