------------------------------ MODULE MCSplineObj ------------------------------
(***************************************************************************)
(* Exhaustive exploration of the spline-object life cycle (SplineObj) with *)
(* small constants, and generation of one script per transition of the     *)
(* abstract state graph for replay on the real classes (C10, C11, C15).     *)
(*                                                                         *)
(* Data are abstract: a problem is (size n, variant v, time overload).      *)
(* `hist` is a history variable excluded from the VIEW, so TLC expands each *)
(* abstract state once, from a shortest history; the state constraint       *)
(* prints the history of every generated successor = one script per edge.   *)
(***************************************************************************)
EXTENDS SplineObj, Json, FiniteSets

CONSTANTS Ids, Sizes, Variants, Order, MaxOps, Emit, Broken, KindSet, HowSet
\* KindSet, HowSet narrow the alphabet of queries and construction overloads so that deeper histories stay enumerable
\* Broken = "none" for the design as it is; the broken twins must be rejected by TLC:
\*   "noresize"  the cubic factor cache is written only up to the old size when the problem grows
\*   "readcache" the block adjoint runs over the cache's own size instead of N-1 (reads stale blocks after shrinking)
\*   "keepderiv" a rebuild forgets to invalidate the trajectory's lazy derivative cache

VARIABLES hist, last
vars == <<objs, hist, last>>

Hows == {"ctor_durs", "ctor_pts", "upd_durs", "upd_pts"}
Kinds == {"energy", "egrad", "epartial", "prop", "eval", "state", "knots"}
Data(n, v, how) == [order |-> Order, n |-> n, v |-> v, durs |-> how \in {"ctor_durs", "upd_durs"}]

DoBuild(id, n, v, how) ==
    /\ Build(id, Data(n, v, how), n, how \in {"ctor_durs", "ctor_pts"})
    /\ hist' = Append(hist, [op |-> "build", obj |-> id, n |-> n, v |-> v, how |-> how])
    /\ last' = <<"build", id, n, v, how>>
DoQuery(id, kind) ==
    /\ id \in Live
    /\ (Broken = "readcache" /\ kind = "prop" /\ Order # 3
          => objs' = [objs EXCEPT ![id] = [@ EXCEPT !.stale = @ \/ \E i \in 1..Len(objs[id].fac) : objs[id].fac[i] # objs[id].epoch,
                                                    !.last = <<kind>>]])
    /\ (~(Broken = "readcache" /\ kind = "prop" /\ Order # 3) => Query(id, kind))
    /\ hist' = Append(hist, [op |-> kind, obj |-> id])
    /\ last' = <<kind, id>>
DoCopy(dst, src) ==
    /\ src \in Live /\ dst # src
    /\ Copy(dst, src)
    /\ hist' = Append(hist, [op |-> "copy", dst |-> dst, src |-> src])
    /\ last' = <<"copy", dst, src>>
DoAssign(dst, src) ==
    /\ src \in Live /\ dst \in Live
    /\ Assign(dst, src)
    /\ hist' = Append(hist, [op |-> "assign", dst |-> dst, src |-> src])
    /\ last' = <<"assign", dst, src>>

Init == ObjInit /\ hist = <<>> /\ last = <<>>
NextPlain ==
    \/ \E id \in Ids, n \in Sizes, v \in Variants, how \in HowSet : DoBuild(id, n, v, how)
    \/ \E id \in Ids, kind \in KindSet : DoQuery(id, kind)
    \/ \E d \in Ids, s \in Ids : DoCopy(d, s) \/ DoAssign(d, s)
\* the broken twins patch the state produced by the design's Build
NextBroken ==
    \/ \E id \in Ids, n \in Sizes, v \in Variants, how \in HowSet :
          /\ LET old == IF id \in DOMAIN objs /\ how \in {"upd_durs", "upd_pts"} THEN objs[id]
                        ELSE [data |-> Data(n, v, how), n |-> 0, epoch |-> 0, fac |-> <<>>, sol |-> <<>>, tp |-> <<>>,
                              trajEpoch |-> 0, derivCacheEpoch |-> -1, stale |-> FALSE, last |-> <<>>]
                 e == old.epoch + 1
                 facGood == FacAfterBuild(old.fac, Order, n, e)
                 fac == IF Broken = "noresize" /\ Order = 3 /\ Len(old.fac) > 0 /\ Len(old.fac) < Len(facGood)
                        THEN [i \in 1..Len(facGood) |-> IF i <= Len(old.fac) THEN e ELSE 0] ELSE facGood
                 new == [data |-> Data(n, v, how), n |-> n, epoch |-> e, fac |-> fac, sol |-> Tags(n + 1, e), tp |-> Tags(n, e),
                         trajEpoch |-> e,
                         derivCacheEpoch |-> IF Broken = "keepderiv" THEN old.derivCacheEpoch ELSE -1,
                         stale |-> old.stale, last |-> <<"build">>]
             IN objs' = [i \in (DOMAIN objs) \cup {id} |-> IF i = id THEN new ELSE objs[i]]
          /\ hist' = Append(hist, [op |-> "build", obj |-> id, n |-> n, v |-> v, how |-> how])
          /\ last' = <<"build", id, n, v, how>>
    \/ \E id \in Ids, kind \in KindSet : DoQuery(id, kind)
    \/ \E d \in Ids, s \in Ids : DoCopy(d, s) \/ DoAssign(d, s)
Next == IF Broken = "none" THEN NextPlain ELSE NextBroken
Spec == Init /\ [][Next]_vars

Bound == Len(hist) <= MaxOps
\* abstract view: epochs only matter relative to the object's current one
AbsObj(o) == [d |-> o.data, n |-> o.n, facLen |-> Len(o.fac),
              facFresh |-> [i \in 1..Len(o.fac) |-> o.fac[i] = o.epoch],
              deriv |-> IF o.derivCacheEpoch = -1 THEN "empty" ELSE IF o.derivCacheEpoch = o.trajEpoch THEN "current" ELSE "old",
              stale |-> o.stale]
View == <<[i \in DOMAIN objs |-> AbsObj(objs[i])], last>>
\* one script per generated edge (only when Emit = TRUE)
EmitScripts == Bound /\ (Emit /\ Len(hist) > 0 => PrintT(<<"SCRIPT", ToJson(hist)>>))
Inv == ObjInv
=============================================================================
