---- MODULE MCSplineObj_TTrace_1790581760 ----
EXTENDS MCSplineObj, Sequences, TLCExt, Toolbox, Naturals, TLC

_expression ==
    LET MCSplineObj_TEExpression == INSTANCE MCSplineObj_TEExpression
    IN MCSplineObj_TEExpression!expression
----

_trace ==
    LET MCSplineObj_TETrace == INSTANCE MCSplineObj_TETrace
    IN MCSplineObj_TETrace!trace
----

_inv ==
    ~(
        TLCGet("level") = Len(_TETrace)
        /\
        hist = (<<[n |-> 1, v |-> 1, how |-> "ctor_durs", op |-> "build", obj |-> 1], [n |-> 2, v |-> 1, how |-> "upd_durs", op |-> "build", obj |-> 1], [op |-> "prop", obj |-> 1]>>)
        /\
        last = (<<"prop", 1>>)
        /\
        objs = (<<[last |-> <<"prop">>, n |-> 2, stale |-> TRUE, fac |-> <<2, 2, 0>>, epoch |-> 2, data |-> [n |-> 2, v |-> 1, order |-> 3, durs |-> TRUE], sol |-> <<2, 2, 2>>, tp |-> <<2, 2>>, trajEpoch |-> 2, derivCacheEpoch |-> -1]>>)
    )
----

_init ==
    /\ hist = _TETrace[1].hist
    /\ last = _TETrace[1].last
    /\ objs = _TETrace[1].objs
----

_next ==
    /\ \E i,j \in DOMAIN _TETrace:
        /\ \/ /\ j = i + 1
              /\ i = TLCGet("level")
        /\ hist  = _TETrace[i].hist
        /\ hist' = _TETrace[j].hist
        /\ last  = _TETrace[i].last
        /\ last' = _TETrace[j].last
        /\ objs  = _TETrace[i].objs
        /\ objs' = _TETrace[j].objs

\* Uncomment the ASSUME below to write the states of the error trace
\* to the given file in Json format. Note that you can pass any tuple
\* to `JsonSerialize`. For example, a sub-sequence of _TETrace.
    \* ASSUME
    \*     LET J == INSTANCE Json
    \*         IN J!JsonSerialize("MCSplineObj_TTrace_1790581760.json", _TETrace)

=============================================================================

 Note that you can extract this module `MCSplineObj_TEExpression`
  to a dedicated file to reuse `expression` (the module in the 
  dedicated `MCSplineObj_TEExpression.tla` file takes precedence 
  over the module `MCSplineObj_TEExpression` below).

---- MODULE MCSplineObj_TEExpression ----
EXTENDS MCSplineObj, Sequences, TLCExt, Toolbox, Naturals, TLC

expression == 
    [
        \* To hide variables of the `MCSplineObj` spec from the error trace,
        \* remove the variables below.  The trace will be written in the order
        \* of the fields of this record.
        hist |-> hist
        ,last |-> last
        ,objs |-> objs
        
        \* Put additional constant-, state-, and action-level expressions here:
        \* ,_stateNumber |-> _TEPosition
        \* ,_histUnchanged |-> hist = hist'
        
        \* Format the `hist` variable as Json value.
        \* ,_histJson |->
        \*     LET J == INSTANCE Json
        \*     IN J!ToJson(hist)
        
        \* Lastly, you may build expressions over arbitrary sets of states by
        \* leveraging the _TETrace operator.  For example, this is how to
        \* count the number of times a spec variable changed up to the current
        \* state in the trace.
        \* ,_histModCount |->
        \*     LET F[s \in DOMAIN _TETrace] ==
        \*         IF s = 1 THEN 0
        \*         ELSE IF _TETrace[s].hist # _TETrace[s-1].hist
        \*             THEN 1 + F[s-1] ELSE F[s-1]
        \*     IN F[_TEPosition - 1]
    ]

=============================================================================



Parsing and semantic processing can take forever if the trace below is long.
 In this case, it is advised to uncomment the module below to deserialize the
 trace from a generated binary file.

\*
\*---- MODULE MCSplineObj_TETrace ----
\*EXTENDS MCSplineObj, IOUtils, TLC
\*
\*trace == IODeserialize("MCSplineObj_TTrace_1790581760.bin", TRUE)
\*
\*=============================================================================
\*

---- MODULE MCSplineObj_TETrace ----
EXTENDS MCSplineObj, TLC

trace == 
    <<
    ([hist |-> <<>>,last |-> <<>>,objs |-> <<>>]),
    ([hist |-> <<[n |-> 1, v |-> 1, how |-> "ctor_durs", op |-> "build", obj |-> 1]>>,last |-> <<"build", 1, 1, 1, "ctor_durs">>,objs |-> <<[last |-> <<"build">>, n |-> 1, stale |-> FALSE, fac |-> <<1, 1>>, epoch |-> 1, data |-> [n |-> 1, v |-> 1, order |-> 3, durs |-> TRUE], sol |-> <<1, 1>>, tp |-> <<1>>, trajEpoch |-> 1, derivCacheEpoch |-> -1]>>]),
    ([hist |-> <<[n |-> 1, v |-> 1, how |-> "ctor_durs", op |-> "build", obj |-> 1], [n |-> 2, v |-> 1, how |-> "upd_durs", op |-> "build", obj |-> 1]>>,last |-> <<"build", 1, 2, 1, "upd_durs">>,objs |-> <<[last |-> <<"build">>, n |-> 2, stale |-> FALSE, fac |-> <<2, 2, 0>>, epoch |-> 2, data |-> [n |-> 2, v |-> 1, order |-> 3, durs |-> TRUE], sol |-> <<2, 2, 2>>, tp |-> <<2, 2>>, trajEpoch |-> 2, derivCacheEpoch |-> -1]>>]),
    ([hist |-> <<[n |-> 1, v |-> 1, how |-> "ctor_durs", op |-> "build", obj |-> 1], [n |-> 2, v |-> 1, how |-> "upd_durs", op |-> "build", obj |-> 1], [op |-> "prop", obj |-> 1]>>,last |-> <<"prop", 1>>,objs |-> <<[last |-> <<"prop">>, n |-> 2, stale |-> TRUE, fac |-> <<2, 2, 0>>, epoch |-> 2, data |-> [n |-> 2, v |-> 1, order |-> 3, durs |-> TRUE], sol |-> <<2, 2, 2>>, tp |-> <<2, 2>>, trajEpoch |-> 2, derivCacheEpoch |-> -1]>>])
    >>
----


=============================================================================

---- CONFIG MCSplineObj_TTrace_1790581760 ----
CONSTANTS
    Ids = { 1 , 2 }
    Sizes = { 1 , 2 , 3 }
    Variants = { 1 , 2 }
    Order = 3
    MaxOps = 3
    Emit = FALSE
    Broken = "noresize"

INVARIANT
    _inv

CHECK_DEADLOCK
    \* CHECK_DEADLOCK off because of PROPERTY or INVARIANT above.
    FALSE

INIT
    _init

NEXT
    _next

CONSTANT
    _TETrace <- _trace

ALIAS
    _expression
=============================================================================
\* Generated on Mon Sep 28 07:49:22 UTC 2026