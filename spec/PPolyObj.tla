-------------------------------- MODULE PPolyObj --------------------------------
(***************************************************************************)
(* PPolyND objects as a state machine: one action per public call.         *)
(*                                                                         *)
(* Abstract state of an object: initialised?, the data it holds (`data`:   *)
(* breakpoints + coefficient rows + coefficients per segment), segment     *)
(* count.  Hidden state (all `mutable` in the class) that must never show  *)
(* through:                                                                *)
(*   dcReady / dcVer / dcNc  - lazy cache of differentiated coefficients,  *)
(*                             built on first evaluation from the data     *)
(*                             dcVer (the data themselves are the tag: two *)
(*                             objects may hold different data under the   *)
(*                             same initialisation count) with dcNc        *)
(*                             coefficients;                               *)
(*   ftReady / ftNc          - lazily built falling-factorial table, only  *)
(*                             needed when the coefficient count exceeds   *)
(*                             the static table (StaticLimit = 8 in the    *)
(*                             code) or the order is dynamic.              *)
(* Every (re)initialisation must invalidate both, and a copy or an         *)
(* assignment must leave the destination with caches that belong to the    *)
(* data it now holds (the source's, or none).  `ver` counts                *)
(* initialisations; a read of a cache built from other data, or a table    *)
(* built for another coefficient count, latches `stale`.                   *)
(* `data` is opaque: model values in MCPPolyObj, real records in           *)
(* TracePPoly.                                                             *)
(***************************************************************************)
EXTENDS Integers, Sequences, TLC

CONSTANT StaticLimit      \* 8 in the code
VARIABLE pobjs            \* live object id -> record

PInit == pobjs = << >>
PLive == DOMAIN pobjs

Fresh == [init |-> FALSE, data |-> <<>>, nc |-> 0, nseg |-> 0, fixed |-> 0, ver |-> 0,
          dcReady |-> FALSE, dcVer |-> <<>>, dcNc |-> 0, ftReady |-> FALSE, ftNc |-> 0, stale |-> FALSE,
          shares |-> {}]      \* ids of OTHER live objects whose caches are the same storage as this one's (design rule: none, ever)

\* accepted iff >= 2 breakpoints, rows = segments * nc, and (fixed order: 0 < nc <= order)
Accepts(fixed, nbp, rows, nc) ==
    /\ nbp >= 2
    /\ rows = (nbp - 1) * nc
    /\ (fixed > 0 => (nc > 0 /\ nc <= fixed))

\* initializeInternal: every path - accepting or rejecting - invalidates the caches
Initialise(o, fixed, data, nbp, rows, nc) ==
    IF Accepts(fixed, nbp, rows, nc)
    THEN [o EXCEPT !.init = TRUE, !.data = data, !.nc = nc, !.nseg = nbp - 1, !.fixed = fixed, !.ver = @ + 1,
                   !.dcReady = FALSE, !.ftReady = FALSE]
    ELSE [o EXCEPT !.init = FALSE, !.data = <<>>, !.nc = 0, !.nseg = 0, !.fixed = fixed, !.ver = @ + 1,
                   !.dcReady = FALSE, !.ftReady = FALSE]

Put(id, rec) == pobjs' = [i \in PLive \cup {id} |-> IF i = id THEN rec ELSE pobjs[i]]

PNew(id, fixed) == Put(id, [Fresh EXCEPT !.fixed = fixed])
PConstruct(id, fixed, data, nbp, rows, nc) == Put(id, Initialise(Fresh, fixed, data, nbp, rows, nc))
PUpdate(id, data, nbp, rows, nc) == id \in PLive /\ Put(id, Initialise(pobjs[id], pobjs[id].fixed, data, nbp, rows, nc))

\* does an evaluation / derivative construction with this coefficient count need the dynamic table?
NeedsTable(o) == ~(o.fixed > 0 /\ o.fixed <= StaticLimit) /\ o.nc > StaticLimit

\* evaluation of derivative order k: k >= nc (or < 0) returns zero without touching anything
AfterEval(o, k) ==
    IF k >= o.nc \/ k < 0 \/ o.nseg = 0 THEN o
    ELSE LET built == IF o.dcReady THEN o
                      ELSE [o EXCEPT !.dcReady = TRUE, !.dcVer = o.data, !.dcNc = o.nc,
                                     !.ftReady = IF NeedsTable(o) THEN TRUE ELSE @,
                                     !.ftNc = IF NeedsTable(o) /\ ~o.ftReady THEN o.nc ELSE @,
                                     !.stale = @ \/ (NeedsTable(o) /\ o.ftReady /\ o.ftNc # o.nc)]
         IN [built EXCEPT !.stale = @ \/ built.dcVer # built.data \/ built.dcNc # built.nc]
PEval(id, k) == id \in PLive /\ Put(id, AfterEval(pobjs[id], k))

\* derivative(k): reads the coefficients and the factor table, builds a NEW object
AfterDerivRead(o) ==
    IF NeedsTable(o) THEN [o EXCEPT !.ftReady = TRUE, !.ftNc = IF o.ftReady THEN @ ELSE o.nc,
                                    !.stale = @ \/ (o.ftReady /\ o.ftNc # o.nc)]
    ELSE o
PDerivative(dst, src, k, data) ==
    /\ src \in PLive
    /\ LET o == pobjs[src]
           o2 == IF o.nseg = 0 \/ k >= o.nc THEN o ELSE AfterDerivRead(o)
           d == IF o.nseg = 0 THEN Fresh
                ELSE IF k >= o.nc THEN Initialise(Fresh, o.fixed, data, o.nseg + 1, o.nseg, 1)
                ELSE Initialise(Fresh, o.fixed, data, o.nseg + 1, o.nseg * (o.nc - k), o.nc - k)
       IN pobjs' = [i \in PLive \cup {dst} |-> IF i = dst THEN [d EXCEPT !.fixed = o.fixed] ELSE IF i = src THEN o2 ELSE pobjs[i]]

\* copies carry the caches of their source (same data, so still coherent) and are independent afterwards
PCopy(dst, src) == src \in PLive /\ Put(dst, pobjs[src])
PAssign(dst, src) == src \in PLive /\ dst \in PLive /\ Put(dst, pobjs[src])
PDestroy(id) == id \in PLive /\ pobjs' = [i \in PLive \ {id} |-> pobjs[i]]
PReset == pobjs' = << >>

(* ------------------------------ invariants ---------------------------- *)
CacheCoherent == \A i \in PLive : LET o == pobjs[i] IN
                    /\ (o.dcReady => o.dcVer = o.data /\ o.dcNc = o.nc)
                    /\ (o.ftReady => o.ftNc = o.nc)
NeverStale == \A i \in PLive : ~pobjs[i].stale
RejectedIsEmpty == \A i \in PLive : ~pobjs[i].init => pobjs[i].nseg = 0 /\ pobjs[i].nc = 0 /\ pobjs[i].data = <<>>
\* caches are private: a copy takes the VALUE of its source's caches, never the storage (a write through one object must not be
\* visible through another)
NoSharedCache == \A i \in PLive : pobjs[i].shares = {}
PObjInv == CacheCoherent /\ NeverStale /\ RejectedIsEmpty /\ NoSharedCache
=============================================================================
