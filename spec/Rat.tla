--------------------------------- MODULE Rat ---------------------------------
(***************************************************************************)
(* Exact rational numbers for TLC.                                         *)
(*                                                                         *)
(* A rational is a string in canonical form "n" or "n/d" (d > 1, reduced), *)
(* so TLA+ equality is numerical equality.  The scalar field operations    *)
(* are evaluated by the Java module override overrides/RatOverrides.java   *)
(* (BigInteger); TLC has only 32-bit integers whose overflow is an error.  *)
(* IEEE-754 binary64 values cross into the specification as C "%a"         *)
(* hex-float strings and are converted *exactly* by RFromHex.              *)
(*                                                                         *)
(* The operators whose body is Undefined have no TLA+ definition that TLC  *)
(* could evaluate (strings are opaque in TLA+); running without the        *)
(* override fails loudly.  RSum, RDot, RHorner and RSolveFast DO have TLA+ *)
(* definitions (the *Def operators); their overrides are speed-ups that    *)
(* spec/SelfTestRat.tla tests against the definitions.                     *)
(***************************************************************************)
EXTENDS Integers, Sequences, TLC

Undefined == CHOOSE x \in {} : TRUE

RAdd(a, b) == Undefined
RSub(a, b) == Undefined
RMul(a, b) == Undefined
RDiv(a, b) == Undefined
RNeg(a) == Undefined
RAbs(a) == Undefined
RCmp(a, b) == Undefined          \* -1, 0, 1
RLt(a, b) == Undefined
RLe(a, b) == Undefined
RSign(a) == Undefined            \* -1, 0, 1
RInt(i) == Undefined             \* TLA+ integer -> rational
RIsInt(a) == Undefined
RFloor(a) == Undefined           \* rational that is an integer
RToInt(a) == Undefined           \* integral rational -> TLA+ integer
RPow(a, k) == Undefined          \* k any integer
RFromHex(s) == Undefined         \* exact value of a %a literal
RIsFiniteHex(s) == Undefined     \* FALSE for nan / inf literals
RHexClass(s) == Undefined        \* "fin", "nan", "+inf", "-inf"
RToHex(a) == Undefined           \* nearest binary64, as a %a-style literal
RShow(a) == Undefined            \* short decimal rendering for reports
RUlpHex(s) == Undefined          \* ulp of the binary64 number s, as a rational
RIsDouble(a) == Undefined        \* exactly representable in binary64?
RSqrtLo(a, digits) == Undefined  \* largest k/10^digits with square <= a
RSqrtHi(a, digits) == Undefined  \* RSqrtLo + 1/10^digits

\* Force(v) = v.  Evaluated by a Java override that converts v and everything nested in it to explicit values: TLC
\* evaluates [x \in S |-> e] to a lazy lambda whose every application re-evaluates e, and TLCEval forces one level only.
Force(v) == v

Zero == "0"
One == "1"
RGt(a, b) == RLt(b, a)
RGe(a, b) == RLe(b, a)
RMax(a, b) == IF RLt(a, b) THEN b ELSE a
RMin(a, b) == IF RLt(a, b) THEN a ELSE b
RFrac(n, d) == RDiv(RInt(n), RInt(d))
RSq(a) == RMul(a, a)
RNearest(a) == RFromHex(RToHex(a))   \* the binary64 number nearest to a (round half even)

(* -------- bulk folds: TLA+ definitions and their (overridden) fast names -------- *)
RECURSIVE RSumDef(_)
RSumDef(s) == IF s = <<>> THEN Zero ELSE RAdd(Head(s), RSumDef(Tail(s)))
RSum(s) == RSumDef(s)

RECURSIVE RDotDef(_, _)
RDotDef(s, t) == IF s = <<>> THEN Zero ELSE RAdd(RMul(Head(s), Head(t)), RDotDef(Tail(s), Tail(t)))
RDot(s, t) == RDotDef(s, t)

RECURSIVE RHornerDef(_, _)
RHornerDef(c, x) == IF c = <<>> THEN Zero ELSE RAdd(Head(c), RMul(x, RHornerDef(Tail(c), x)))
RHorner(c, x) == RHornerDef(c, x)

RMaxSeq(s) == LET F[i \in 0..Len(s)] == IF i = 0 THEN Zero ELSE RMax(F[i-1], s[i]) IN F[Len(s)]
RAbsSum(s) == RSum([i \in 1..Len(s) |-> RAbs(s[i])])
=============================================================================
