---- MODULE MCPPolyObj_TTrace_1790581620 ----
EXTENDS Sequences, TLCExt, MCPPolyObj, Toolbox, Naturals, TLC

_expression ==
    LET MCPPolyObj_TEExpression == INSTANCE MCPPolyObj_TEExpression
    IN MCPPolyObj_TEExpression!expression
----

_trace ==
    LET MCPPolyObj_TETrace == INSTANCE MCPPolyObj_TETrace
    IN MCPPolyObj_TETrace!trace
----

_inv ==
    ~(
        TLCGet("level") = Len(_TETrace)
        /\
        pobjs = (<<[nseg |-> 1, nc |-> 1, dcReady |-> TRUE, ftReady |-> FALSE, fixed |-> 0, data |-> [nseg |-> 1, nc |-> 1, v |-> 1], init |-> TRUE, dcVer |-> 1, ver |-> 2, dcNc |-> 1, ftNc |-> 0, stale |-> FALSE]>>)
        /\
        hist = (<<[kind |-> "ok", nseg |-> 1, nc |-> 1, v |-> 1, op |-> "ctor", obj |-> 1], [op |-> "eval", obj |-> 1, k |-> 0], [kind |-> "ok", nseg |-> 1, nc |-> 1, v |-> 1, op |-> "update", obj |-> 1]>>)
        /\
        last = (<<"update", 1, 1, "ok", 1, 1>>)
    )
----

_init ==
    /\ pobjs = _TETrace[1].pobjs
    /\ hist = _TETrace[1].hist
    /\ last = _TETrace[1].last
----

_next ==
    /\ \E i,j \in DOMAIN _TETrace:
        /\ \/ /\ j = i + 1
              /\ i = TLCGet("level")
        /\ pobjs  = _TETrace[i].pobjs
        /\ pobjs' = _TETrace[j].pobjs
        /\ hist  = _TETrace[i].hist
        /\ hist' = _TETrace[j].hist
        /\ last  = _TETrace[i].last
        /\ last' = _TETrace[j].last

\* Uncomment the ASSUME below to write the states of the error trace
\* to the given file in Json format. Note that you can pass any tuple
\* to `JsonSerialize`. For example, a sub-sequence of _TETrace.
    \* ASSUME
    \*     LET J == INSTANCE Json
    \*         IN J!JsonSerialize("MCPPolyObj_TTrace_1790581620.json", _TETrace)

=============================================================================

 Note that you can extract this module `MCPPolyObj_TEExpression`
  to a dedicated file to reuse `expression` (the module in the 
  dedicated `MCPPolyObj_TEExpression.tla` file takes precedence 
  over the module `MCPPolyObj_TEExpression` below).

---- MODULE MCPPolyObj_TEExpression ----
EXTENDS Sequences, TLCExt, MCPPolyObj, Toolbox, Naturals, TLC

expression == 
    [
        \* To hide variables of the `MCPPolyObj` spec from the error trace,
        \* remove the variables below.  The trace will be written in the order
        \* of the fields of this record.
        pobjs |-> pobjs
        ,hist |-> hist
        ,last |-> last
        
        \* Put additional constant-, state-, and action-level expressions here:
        \* ,_stateNumber |-> _TEPosition
        \* ,_pobjsUnchanged |-> pobjs = pobjs'
        
        \* Format the `pobjs` variable as Json value.
        \* ,_pobjsJson |->
        \*     LET J == INSTANCE Json
        \*     IN J!ToJson(pobjs)
        
        \* Lastly, you may build expressions over arbitrary sets of states by
        \* leveraging the _TETrace operator.  For example, this is how to
        \* count the number of times a spec variable changed up to the current
        \* state in the trace.
        \* ,_pobjsModCount |->
        \*     LET F[s \in DOMAIN _TETrace] ==
        \*         IF s = 1 THEN 0
        \*         ELSE IF _TETrace[s].pobjs # _TETrace[s-1].pobjs
        \*             THEN 1 + F[s-1] ELSE F[s-1]
        \*     IN F[_TEPosition - 1]
    ]

=============================================================================



Parsing and semantic processing can take forever if the trace below is long.
 In this case, it is advised to uncomment the module below to deserialize the
 trace from a generated binary file.

\*
\*---- MODULE MCPPolyObj_TETrace ----
\*EXTENDS IOUtils, MCPPolyObj, TLC
\*
\*trace == IODeserialize("MCPPolyObj_TTrace_1790581620.bin", TRUE)
\*
\*=============================================================================
\*

---- MODULE MCPPolyObj_TETrace ----
EXTENDS MCPPolyObj, TLC

trace == 
    <<
    ([pobjs |-> <<>>,hist |-> <<>>,last |-> <<>>]),
    ([pobjs |-> <<[nseg |-> 1, nc |-> 1, dcReady |-> FALSE, ftReady |-> FALSE, fixed |-> 0, data |-> [nseg |-> 1, nc |-> 1, v |-> 1], init |-> TRUE, dcVer |-> 0, ver |-> 1, dcNc |-> 0, ftNc |-> 0, stale |-> FALSE]>>,hist |-> <<[kind |-> "ok", nseg |-> 1, nc |-> 1, v |-> 1, op |-> "ctor", obj |-> 1]>>,last |-> <<"ctor", 1, 1, "ok", 1, 1>>]),
    ([pobjs |-> <<[nseg |-> 1, nc |-> 1, dcReady |-> TRUE, ftReady |-> FALSE, fixed |-> 0, data |-> [nseg |-> 1, nc |-> 1, v |-> 1], init |-> TRUE, dcVer |-> 1, ver |-> 1, dcNc |-> 1, ftNc |-> 0, stale |-> FALSE]>>,hist |-> <<[kind |-> "ok", nseg |-> 1, nc |-> 1, v |-> 1, op |-> "ctor", obj |-> 1], [op |-> "eval", obj |-> 1, k |-> 0]>>,last |-> <<"eval", 1, 0>>]),
    ([pobjs |-> <<[nseg |-> 1, nc |-> 1, dcReady |-> TRUE, ftReady |-> FALSE, fixed |-> 0, data |-> [nseg |-> 1, nc |-> 1, v |-> 1], init |-> TRUE, dcVer |-> 1, ver |-> 2, dcNc |-> 1, ftNc |-> 0, stale |-> FALSE]>>,hist |-> <<[kind |-> "ok", nseg |-> 1, nc |-> 1, v |-> 1, op |-> "ctor", obj |-> 1], [op |-> "eval", obj |-> 1, k |-> 0], [kind |-> "ok", nseg |-> 1, nc |-> 1, v |-> 1, op |-> "update", obj |-> 1]>>,last |-> <<"update", 1, 1, "ok", 1, 1>>])
    >>
----


=============================================================================

---- CONFIG MCPPolyObj_TTrace_1790581620 ----
CONSTANTS
    StaticLimit = 2
    Ids = { 1 , 2 }
    Fixed = 0
    Ncs = { 1 , 2 , 3 }
    Segs = { 1 , 2 }
    Versions = { 1 , 2 }
    MaxOps = 3
    Emit = FALSE
    Broken = "noinvalidate"

INVARIANT
    _inv

CHECK_DEADLOCK
    \* CHECK_DEADLOCK off because of PROPERTY or INVARIANT above.
    FALSE

INIT
    _init

NEXT
    _next

CONSTANT
    _TETrace <- _trace

ALIAS
    _expression
=============================================================================
\* Generated on Mon Sep 28 07:47:02 UTC 2026