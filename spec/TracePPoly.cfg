SPECIFICATION TraceSpec
CONSTANT StaticLimit = 8
INVARIANT TraceInv
CONSTRAINT Emit
POSTCONDITION TraceAccepted
CHECK_DEADLOCK FALSE
