------------------------------- MODULE Numerics -------------------------------
(***************************************************************************)
(* Polynomials, vectors and matrices over exact rationals (module Rat).    *)
(* Vectors are sequences of rationals, matrices sequences of rows,         *)
(* polynomials sequences of coefficients in ascending power (c[k+1] is the *)
(* coefficient of x^k).  No floating point anywhere.                       *)
(***************************************************************************)
EXTENDS Rat

(* ------------------------------ integers ------------------------------ *)
\* falling factorial n (n-1) ... (n-d+1); FF(n,0) = 1; 0 if d > n
RECURSIVE FFrec(_, _)
FFrec(n, d) == IF d = 0 THEN 1 ELSE IF d > n THEN 0 ELSE n * FFrec(n - 1, d - 1)
\* (table of the values used: a constant, evaluated once by TLC; 12!/1! still fits 32 bits)
FFTable == [n \in 0..12 |-> [d \in 0..12 |-> FFrec(n, d)]]
FF(n, d) == IF n \in 0..12 /\ d \in 0..12 THEN FFTable[n][d] ELSE FFrec(n, d)
Fact(n) == FF(n, n)

(* ------------------------------- vectors ------------------------------ *)
VZero(n) == Force([i \in 1..n |-> Zero])
VAdd(x, y) == Force([i \in 1..Len(x) |-> RAdd(x[i], y[i])])
VSub(x, y) == Force([i \in 1..Len(x) |-> RSub(x[i], y[i])])
VScale(a, x) == Force([i \in 1..Len(x) |-> RMul(a, x[i])])
VUnit(n, j) == Force([i \in 1..n |-> IF i = j THEN One ELSE Zero])
(* ------------------------------- matrices ----------------------------- *)
NRows(A) == Len(A)
NCols(A) == IF Len(A) = 0 THEN 0 ELSE Len(A[1])
MZero(n, m) == Force([i \in 1..n |-> [j \in 1..m |-> Zero]])
Transpose(A) == Force([j \in 1..NCols(A) |-> [i \in 1..NRows(A) |-> A[i][j]]])
MatVec(A, x) == Force([i \in 1..NRows(A) |-> RDot(A[i], x)])
MatMul(A, B) == LET Bt == Force(Transpose(B))
                IN Force([i \in 1..NRows(A) |-> [j \in 1..NCols(B) |-> RDot(A[i], Bt[j])]])
Col(A, j) == Force([i \in 1..NRows(A) |-> A[i][j]])
ColMat(x) == Force([i \in 1..Len(x) |-> <<x[i]>>])
(***************************************************************************)
(* SolveDef(A, B): the X with A X = B, by Gauss-Jordan elimination with    *)
(* first-non-zero pivoting (exact arithmetic needs no magnitude pivoting). *)
(* A is n x n, B is n x m.  Undefined (TLC error) if A is singular.         *)
(* Every intermediate is forced with TLCEval: TLC's lazy evaluation makes  *)
(* the elimination exponential otherwise.  (The same holds for every       *)
(* sequence constructor in these modules: [k \in S |-> e] is a lazy lambda  *)
(* in TLC whose every application re-evaluates e, so results are forced.)  *)
(***************************************************************************)
\* returns <<>> when A is singular
RECURSIVE Elim(_, _, _)
Elim(M, c, n) ==
    IF c > n THEN M
    ELSE IF \A i \in c..n : M[i][c] = Zero THEN <<>>
    ELSE LET p == CHOOSE i \in c..n : M[i][c] # Zero /\ \A j \in c..(i-1) : M[j][c] = Zero
             w == Len(M[1])
             Msw == Force([i \in 1..n |-> IF i = c THEN M[p] ELSE IF i = p THEN M[c] ELSE M[i]])
             piv == Msw[c][c]
             prow == Force([j \in 1..w |-> RDiv(Msw[c][j], piv)])
             M2 == Force([i \in 1..n |->
                      IF i = c THEN prow
                      ELSE IF Msw[i][c] = Zero THEN Msw[i]
                      ELSE LET f == Msw[i][c]
                           IN [j \in 1..w |-> IF prow[j] = Zero THEN Msw[i][j]
                                                ELSE RSub(Msw[i][j], RMul(f, prow[j]))]])
         IN Elim(M2, c + 1, n)

SolveDef(A, B) ==
    LET n == NRows(A)
        m == NCols(B)
        Aug == Force([i \in 1..n |-> A[i] \o B[i]])
        R == Force(Elim(Aug, 1, n))
    IN IF R = <<>> THEN Undefined     \* singular: no solution is defined (TLC reports an evaluation error)
       ELSE [i \in 1..n |-> SubSeq(R[i], n + 1, n + m)]

\* speed-up with the same meaning (Java override; tested against SolveDef in SelfTestRat)
RSolveFast(A, B) == SolveDef(A, B)

Solve(A, B) == RSolveFast(A, B)
SolveVec(A, b) == Col(Solve(A, ColMat(b)), 1)
IsNonsingular(A) == Force(Elim(Force(A), 1, NRows(A))) # <<>>

(* ------------------------------ polynomials --------------------------- *)
PolyEval(c, x) == RHorner(c, x)
\* d-th derivative as a polynomial (empty sequence = zero polynomial)
PolyDeriv(c, d) == Force([k \in 1..(IF Len(c) > d THEN Len(c) - d ELSE 0) |-> RMul(RInt(FF(k - 1 + d, d)), c[k + d])])
PolyEvalD(c, x, d) == PolyEval(PolyDeriv(c, d), x)
PolyMul(a, b) ==
    IF Len(a) = 0 \/ Len(b) = 0 THEN <<>>
    ELSE LET aa == Force(a)  bb == Force(b)
         IN Force([k \in 1..(Len(aa) + Len(bb) - 1) |->
            LET lo == IF k - Len(bb) + 1 > 1 THEN k - Len(bb) + 1 ELSE 1
                hi == IF k < Len(aa) THEN k ELSE Len(aa)
            IN RSum([i \in 1..(hi - lo + 1) |-> RMul(aa[lo + i - 1], bb[k + 1 - (lo + i - 1)])])])
\* integral over [0, x]
PolyInt(c, x) == RSum([k \in 1..Len(c) |-> RMul(RDiv(c[k], RInt(k)), RPow(x, k))])
\* sum_k |c_k x^k| : the magnitude a Horner evaluation is assembled from
PolyAbsEval(c, x) == RSum([k \in 1..Len(c) |-> RAbs(RMul(c[k], RPow(x, k - 1)))])
=============================================================================
