------------------------------- MODULE TracePPoly -------------------------------
(***************************************************************************)
(* Trace specification for PPolyND<DIM, ORDER>: steps PPolyObj along a      *)
(* recording made by harness/ppoly_replay and judges every observation in   *)
(* exact arithmetic against PPolyMath (C03, C11, C16 second sentence, C20). *)
(* Monitor style as TraceSpline: deviations are collected in `bad`.         *)
(***************************************************************************)
EXTENDS PPolyMath, PPolyObj, Json, IOUtils

Tr == ndJsonDeserialize(IOEnv.TRACE)

VARIABLES l, bad, stats, worst, memo, nexec, hints, sc,
          datas     \* registry of the distinct polynomial contents seen in this execution (memo keys use the index)
tvars == <<l, bad, stats, worst, memo, nexec, hints, datas, sc, pobjs>>

Has(r, f) == f \in DOMAIN r
H(x) == RFromHex(x)
HV(v) == Force([i \in 1..Len(v) |-> RFromHex(v[i])])
HM(m) == Force([i \in 1..Len(m) |-> HV(m[i])])
Tiny == RPow("10", -200)

Cand(prop, code, ok, info) == [prop |-> prop, code |-> code, ok |-> ok, info |-> info, m |-> Zero]
CandM(prop, code, err, tol, info) == [prop |-> prop, code |-> code, ok |-> RLe(err, tol), info |-> info,
                                      m |-> IF tol = Zero THEN (IF err = Zero THEN Zero ELSE "1000000") ELSE RDiv(err, tol)]
Fails(cands) == SelectSeq(cands, LAMBDA c : ~c.ok)
Mk(c, ev) == [prop |-> c.prop, code |-> c.code, info |-> c.info, line |-> l, exec |-> nexec,
              obj |-> IF Has(ev, "obj") THEN ev.obj ELSE 0]
Devs(cands, ev) == LET f == Fails(cands) IN [i \in 1..Len(f) |-> Mk(f[i], ev)]
UpdWorst(w0, cs) ==
    LET F[i \in 0..Len(cs)] ==
            IF i = 0 THEN w0
            ELSE LET c == cs[i]  k == c.prop \o ":" \o c.code  w == F[i - 1]
                 IN IF c.m = Zero THEN w
                    ELSE IF k \in DOMAIN w THEN (IF RLt(w[k], c.m) THEN [w EXCEPT ![k] = c.m] ELSE w)
                    ELSE w @@ (k :> c.m)
    IN F[Len(cs)]
Bump(st, key, n) == IF key \in DOMAIN st THEN [st EXCEPT ![key] = @ + n] ELSE st @@ (key :> n)
RECURSIVE Flat(_)
Flat(ss) == IF ss = <<>> THEN <<>> ELSE Head(ss) \o Flat(Tail(ss))

IsEvent(k) == l <= Len(Tr) /\ Tr[l].e = k
Ev == Tr[l]
Advance == l' = l + 1
FixedOf(ord) == IF ord < 0 THEN 0 ELSE ord

(***************************************************************************)
(* Every action computes all it needs in ONE value-level operator          *)
(* (XxxStep; LET definitions inside an action are re-evaluated by TLC at   *)
(* every use, those inside an operator evaluated as a value are cached),   *)
(* stores it in the scratch variable sc', and the other conjuncts read sc'.*)
(* A step record has cands (judged candidates), st (counters to bump),     *)
(* memo, hints, datas (their new values) and what the PPolyObj action needs.*)
(***************************************************************************)
RECURSIVE BumpAll(_, _)
BumpAll(st, keys) == IF keys = <<>> THEN st ELSE BumpAll(Force(Bump(st, Head(keys), 1)), Tail(keys))
Record ==
    /\ bad' = bad \o Devs(sc'.cands, Ev)
    /\ worst' = UpdWorst(worst, sc'.cands)
    /\ stats' = Bump(BumpAll(stats, sc'.st), "judgements", Len(sc'.cands))
    /\ memo' = sc'.memo
    /\ hints' = sc'.hints
    /\ datas' = sc'.datas
    /\ UNCHANGED nexec
    /\ Advance
StepRec(cands, st) == [cands |-> cands, st |-> st, memo |-> memo, hints |-> hints, datas |-> datas]

(* --------------------------- (re)initialisation ----------------------- *)
Content(bph, Ch, nc) == <<nc, bph, Ch>>
DidOf(bph, Ch, nc) == LET c == Content(bph, Ch, nc)
                      IN IF \E i \in 1..Len(datas) : datas[i] = c THEN CHOOSE i \in 1..Len(datas) : datas[i] = c ELSE Len(datas) + 1
Registered(bph, Ch, nc) == IF DidOf(bph, Ch, nc) > Len(datas) THEN Append(datas, Content(bph, Ch, nc)) ELSE datas
\* the record kept as abstract data of an accepted polynomial
DataOf(bph, Ch, nc, dim) == [bph |-> bph, Ch |-> Ch, bp |-> HV(bph), C |-> HM(Ch), nc |-> nc, dim |-> dim, did |-> DidOf(bph, Ch, nc)]

\* x is the difference a - b up to two units in the last place of the larger operand (however the implementation rounds it)
Near2(x, a, b) == RLe(RAbs(RSub(x, RSub(a, b))), RMul(RMul("2", Eps), RMax(RMax(RAbs(a), RAbs(b)), RPow("2", -1000))))
\* what info() must report for the abstract object o (C16: a rejected polynomial is uninitialised, with no segments)
InfoCands(prop, tag, o, out, extra) ==
    LET info == [tag |-> tag, init |-> o.init, nseg |-> o.nseg, nc |-> o.nc] @@ extra
    IN <<Cand(prop, tag \o ".init", out.init = o.init, info),
         Cand(prop, tag \o ".nseg", out.nseg = o.nseg, info),
         Cand(prop, tag \o ".nc", out.nc = o.nc /\ out.deg = (IF o.nc > 0 THEN o.nc - 1 ELSE 0), info),
         Cand(prop, tag \o ".data",
              IF o.init THEN out.bp = o.data.bph /\ out.C = o.data.Ch
                             /\ out.start = o.data.bph[1] /\ out.end = o.data.bph[Len(o.data.bph)]
                             /\ Near2(H(out.dur), o.data.bp[Len(o.data.bp)], o.data.bp[1])
              ELSE Len(out.bp) = 0 /\ Len(out.C) = 0 /\ H(out.start) = Zero /\ H(out.end) = Zero /\ H(out.dur) = Zero, info)>>

\* the object a (re)initialisation with these arguments produces, by the specification
InitOutcome(old, fixed, bph, Ch, nc, dim) ==
    LET ok == Accepts(fixed, Len(bph), Len(Ch), nc)
    IN Initialise(old, fixed, IF ok THEN DataOf(bph, Ch, nc, dim) ELSE <<>>, Len(bph), Len(Ch), nc)

CtorStep(ev) ==
    LET fixed == FixedOf(ev.ord)
        o2 == Force(IF ev.e = "new" THEN [Fresh EXCEPT !.fixed = fixed] ELSE InitOutcome(Fresh, fixed, ev.bp, ev.C, ev.nc, ev.dim))
    IN Force([StepRec(InfoCands("C16", "ctor", o2, ev.out, [ord |-> ev.ord, dim |-> ev.dim]), <<"constructions">>)
               EXCEPT !.datas = IF ev.e = "new" \/ ~o2.init THEN datas ELSE Registered(ev.bp, ev.C, ev.nc)] @@ [obj |-> o2])
TrCtor == (IsEvent("ctor") \/ IsEvent("new")) /\ sc' = CtorStep(Ev) /\ Put(Ev.obj, sc'.obj) /\ Record

UpdateStep(ev) ==
    LET o == pobjs[ev.obj]
        o2 == Force(InitOutcome(o, o.fixed, ev.bp, ev.C, ev.nc, ev.dim))
    IN Force([StepRec(InfoCands("C16", "update", o2, ev.out, [fixed |-> o.fixed]), <<"updates">>)
               EXCEPT !.datas = IF ~o2.init THEN datas ELSE Registered(ev.bp, ev.C, ev.nc)] @@ [obj |-> o2])
TrUpdate == IsEvent("update") /\ sc' = UpdateStep(Ev) /\ Put(Ev.obj, sc'.obj) /\ Record

\* zero(bp, nc) and constant(bp, value)  (C20, last sentence)
FactoryStep(ev) ==
    LET fixed == FixedOf(ev.ord)
        nseg == IF Len(ev.bp) > 1 THEN Len(ev.bp) - 1 ELSE 0
        nc == IF ev.which = "zero" THEN (IF Has(ev, "nc") THEN ev.nc ELSE 1) ELSE 1
        zrow == [c \in 1..ev.dim |-> "0x0p+0"]
        Ch == Force(IF ev.which = "zero" THEN [r \in 1..(nseg * nc) |-> zrow] ELSE [r \in 1..nseg |-> ev.val])
        o2 == Force(InitOutcome(Fresh, fixed, ev.bp, Ch, nc, ev.dim))
    IN Force([StepRec(InfoCands("C20", "factory." \o ev.which, o2, ev.out, [ord |-> ev.ord, dim |-> ev.dim]), <<"factories">>)
               EXCEPT !.datas = IF ~o2.init THEN datas ELSE Registered(ev.bp, Ch, nc)] @@ [obj |-> o2])
TrFactory == IsEvent("factory") /\ sc' = FactoryStep(Ev) /\ Put(Ev.obj, sc'.obj) /\ Record

\* copies and assigned instances report exactly the data of their source at the time of the copy (C11)
CopyStep(ev) == Force(StepRec(InfoCands("C11", ev.e, pobjs[ev.src], ev.out, << >>), <<"copies">>))
TrCopy == (IsEvent("copy") \/ IsEvent("assign")) /\ sc' = CopyStep(Ev)
          /\ (IF Ev.e = "copy" THEN PCopy(Ev.dst, Ev.src) ELSE PAssign(Ev.dst, Ev.src)) /\ Record

\* derivative(k): a new polynomial whose coefficients are the (correctly rounded) differentiated ones
DerivData(o, k) ==
    LET d == o.data  nc == d.nc  nseg == o.nseg  n2 == nc - k
    IN IF k >= nc
       THEN [bph |-> d.bph, bp |-> d.bp, nc |-> 1, dim |-> d.dim, Cx |-> [r \in 1..nseg |-> [c \in 1..d.dim |-> Zero]],
             C |-> [r \in 1..nseg |-> [c \in 1..d.dim |-> Zero]], Ch |-> [r \in 1..nseg |-> [c \in 1..d.dim |-> "0x0p+0"]]]
       ELSE LET Cq == Force([r \in 1..(nseg * n2) |->
                         LET seg == ((r - 1) \div n2) + 1  j == (r - 1) - (seg - 1) * n2
                         IN [c \in 1..d.dim |-> RNearest(RMul(RInt(FF(j + k, k)), d.C[(seg - 1) * nc + j + k + 1][c]))]])
                Cxq == Force([r \in 1..(nseg * n2) |->
                         LET seg == ((r - 1) \div n2) + 1  j == (r - 1) - (seg - 1) * n2
                         IN [c \in 1..d.dim |-> RMul(RInt(FF(j + k, k)), d.C[(seg - 1) * nc + j + k + 1][c])]])
            IN [bph |-> d.bph, bp |-> d.bp, nc |-> n2, dim |-> d.dim, C |-> Cq, Cx |-> Cxq, Ch |-> <<>>]
DerivStep(ev) ==
    LET o == pobjs[ev.src]
        dd == Force(IF o.init THEN DerivData(o, ev.k) ELSE <<>>)
        \* keep the logged bits as the new object's data (they are checked to denote the predicted values)
        data == Force(IF o.init THEN [f \in DOMAIN dd \ {"Ch", "C", "Cx"} |-> dd[f]] @@ [Ch |-> ev.out.C, C |-> HM(ev.out.C), did |-> DidOf(dd.bph, ev.out.C, dd.nc)] ELSE <<>>)
        info == [k |-> ev.k, nc |-> o.nc, nseg |-> o.nseg]
        cands == IF ~o.init THEN <<Cand("C03", "deriv.uninit", ~ev.out.init /\ ev.out.nseg = 0, info)>>
                 ELSE <<Cand("C03", "deriv.shape", ev.out.init /\ ev.out.nseg = o.nseg /\ ev.out.nc = dd.nc /\ ev.out.bp = o.data.bph
                                                   /\ Len(ev.out.C) = Len(dd.C), info),
                        \* differentiated coefficients: ff(k,d) c_k up to a few roundings (their exact bits are not prescribed; the VALUE
                        \* route-independence of evaluating the derivative trajectory is judged by the routes events)
                        Cand("C03", "deriv.coef", Len(ev.out.C) = Len(dd.C) /\ \A r \in 1..Len(dd.C) : \A c \in 1..Len(dd.C[r]) :
                                  RLe(RAbs(RSub(H(ev.out.C[r][c]), dd.Cx[r][c])), RMul(RMul("4", Eps), RAbs(dd.Cx[r][c]))), info)>>
    IN Force([StepRec(cands, <<"derivatives">>) EXCEPT !.datas = IF o.init THEN Registered(dd.bph, ev.out.C, dd.nc) ELSE datas] @@ [data |-> data])
TrDerivative == IsEvent("derivative") /\ sc' = DerivStep(Ev) /\ PDerivative(Ev.dst, Ev.src, Ev.k, sc'.data) /\ Record

(* ------------------------------ evaluation ---------------------------- *)
\* key of the polynomial's data, for route / history independence of evaluation bits
DKey(o) == o.data.did
ValueCands(prop, code, o, t, k, val, info) ==
    IF ~o.init \/ k >= o.nc
    THEN <<Cand(prop, code \o ".zero", \A c \in 1..Len(val) : H(val[c]) = Zero, info)>>
    ELSE LET want == Force(EvalAt(o.data.bp, o.data.C, o.nc, t, k))
             mag == Force(EvalAbsAt(o.data.bp, o.data.C, o.nc, t, k))
             fr == Force([c \in 1..Len(want) |-> RDiv(RAbs(RSub(H(val[c]), want[c])), RAdd(RMul(RMul("64", Eps), mag[c]), Tiny))])
         IN <<CandM(prop, code \o ".value", RMaxSeq(fr), One, info)>>
MemoCand(prop, code, key, val, info) == Cand(prop, code, key \notin DOMAIN memo \/ memo[key] = val, info)
MemoPut(mm, key, val) == IF key \in DOMAIN mm THEN mm ELSE mm @@ (key :> val)

EvalStep(ev) ==
    LET o == pobjs[ev.obj]
        info == [t |-> ev.t, k |-> ev.k, nc |-> o.nc, nseg |-> o.nseg]
        key == IF o.init THEN <<"eval", ev.k, ev.t, DKey(o)>> ELSE <<"none">>
        cands == ValueCands("C03", "eval", o, H(ev.t), ev.k, ev.out.val, info)
                 \o (IF o.init THEN <<MemoCand("C03", "eval.memo", key, ev.out.val, info)>> ELSE <<>>)
    IN Force([StepRec(cands, <<"evals">>) EXCEPT !.memo = IF o.init THEN MemoPut(memo, key, ev.out.val) ELSE memo])
TrEval == IsEvent("eval") /\ sc' = EvalStep(Ev) /\ PEval(Ev.obj, Ev.k) /\ Record

\* hinted evaluation with a persistent hint cell: the hint is state (stale hints are carried across updates)
HintAfter(o, t, k, h) == IF ~o.init \/ k >= o.nc THEN h ELSE Piece(o.data.bp, t) - 1
HintsWith(cell, v) == [c \in DOMAIN hints \cup {cell} |-> IF c = cell THEN v ELSE hints[c]]
TrSetHint == IsEvent("sethint") /\ sc' = Force([StepRec(<<>>, <<"sethints">>) EXCEPT !.hints = HintsWith(Ev.cell, Ev.value)]) /\ UNCHANGED pobjs /\ Record
EvalHintStep(ev) ==
    LET o == pobjs[ev.obj]
        hin == IF ev.cell \in DOMAIN hints THEN hints[ev.cell] ELSE 0
        hout == HintAfter(o, H(ev.t), ev.k, hin)
        info == [t |-> ev.t, k |-> ev.k, nc |-> o.nc, nseg |-> o.nseg, hint_in |-> hin, hint_out |-> ev.out.hint_out, want |-> hout]
        key == IF o.init THEN <<"eval", ev.k, ev.t, DKey(o)>> ELSE <<"none">>
        cands == <<Cand("INFRA", "hint.cell", ev.out.hint_in = hin, info),
                   Cand("C03", "hint.post", ev.out.hint_out = hout, info)>>
                 \o ValueCands("C03", "hinted", o, H(ev.t), ev.k, ev.out.val, info)
                 \o (IF o.init THEN <<MemoCand("C03", "hinted.memo", key, ev.out.val, info)>> ELSE <<>>)
    IN Force([StepRec(cands, <<"hinted_evals">>) EXCEPT !.memo = IF o.init THEN MemoPut(memo, key, ev.out.val) ELSE memo,
                                                      !.hints = HintsWith(ev.cell, hout)])
TrEvalHint == IsEvent("eval_hint") /\ sc' = EvalHintStep(Ev) /\ PEval(Ev.obj, Ev.k) /\ Record

\* every evaluation route for one (t, k) in one event: identical bits, right value, hint post-state
RoutesStep(ev) ==
    LET o == pobjs[ev.obj]
        t == H(ev.t)
        pc == Piece(o.data.bp, t) - 1
        out == ev.out
        info == [t |-> ev.t, k |-> ev.k, nc |-> o.nc, nseg |-> o.nseg, hint |-> ev.hint, piece |-> pc]
        same(f) == Has(out, f) => out[f] = out.plain
        segroutes == Has(out, "seg_idx")
        key == <<"eval", ev.k, ev.t, DKey(o)>>
        cands == <<Cand("INFRA", "routes.script_piece", ev.seg = pc, info),
                   Cand("C03", "routes.hinted", same("hinted"), info),
                   Cand("C03", "routes.nullhint", same("nullhint"), info),
                   Cand("C03", "routes.batch", same("batch0") /\ same("batch1"), info),
                   Cand("C03", "routes.enum", same("enum_plain") /\ same("enum_hinted") /\ same("enum_batch"), info),
                   Cand("C03", "routes.segment", same("seg_idx") /\ same("seg_at") /\ same("seg_iter") /\ same("seg_arrow") /\ same("seg_enum"), info),
                   Cand("C03", "routes.tau", segroutes => H(out.tau) = RNearest(RSub(t, o.data.bp[pc + 1])), info),
                   Cand("C03", "routes.dtraj", same("dtraj"), info),
                   Cand("C03", "routes.dtraj_shape", out.dtraj_nseg = o.nseg /\ out.dtraj_nc = (IF ev.k >= o.nc THEN 1 ELSE o.nc - ev.k), info),
                   Cand("C03", "hint.post", ev.k < o.nc => out.hint_out = pc /\ (Has(out, "enum_hint_out") => out.enum_hint_out = pc), info),
                   MemoCand("C03", "routes.memo", key, out.plain, info)>>
                 \o ValueCands("C03", "routes", o, t, ev.k, out.plain, info)
    IN Force([StepRec(cands, <<"route_events">>) EXCEPT !.memo = MemoPut(memo, key, out.plain)])
TrRoutes == IsEvent("routes") /\ sc' = RoutesStep(Ev) /\ PEval(Ev.obj, Ev.k) /\ Record

\* batch evaluation equals pointwise evaluation (C20)
BatchStep(ev) == Force(StepRec(<<Cand("C20", "batch.pointwise", ev.out.batch = ev.out.pointwise /\ Len(ev.out.batch) = Len(ev.ts), [k |-> ev.k, n |-> Len(ev.ts)])>>, <<"batches">>))
TrBatch == IsEvent("batch") /\ sc' = BatchStep(Ev) /\ PEval(Ev.obj, Ev.k) /\ Record

\* segment accessors and iteration (C03)
SegInfoStep(ev) ==
    LET o == pobjs[ev.obj]
        i == ev.seg
        d == o.data
        info == [seg |-> i, nseg |-> o.nseg, nc |-> o.nc]
        cands == <<Cand("C03", "seg.times", ev.out.startTime = d.bph[i + 1] /\ ev.out.endTime = d.bph[i + 2]
                                             /\ Near2(H(ev.out.duration), d.bp[i + 2], d.bp[i + 1]) /\ ev.out.index = i, info),
                   Cand("C03", "seg.coeffs", ev.out.coeffs = SubSeq(d.Ch, i * o.nc + 1, (i + 1) * o.nc), info),
                   Cand("C03", "seg.iteration", ev.out.iter_count = o.nseg /\ ev.out.iter_in_order /\ ev.out.end_minus_begin = o.nseg, info)>>
    IN Force(StepRec(cands, <<"seg_infos">>))
TrSegInfo == IsEvent("seg_info") /\ sc' = SegInfoStep(Ev) /\ UNCHANGED pobjs /\ Record

\* checked access throws exactly outside 0..nseg-1 (C16)
AtStep(ev) ==
    LET o == pobjs[ev.obj]
    IN Force(StepRec(<<Cand("C16", "at.throws", ev.out.threw = (ev.i < 0 \/ ev.i >= o.nseg) /\ (~ev.out.threw => ev.out.index = ev.i),
                           [i |-> ev.i, nseg |-> o.nseg])>>, <<"at_calls">>))
TrAt == IsEvent("at") /\ sc' = AtStep(Ev) /\ UNCHANGED pobjs /\ Record

TrInfo == IsEvent("info") /\ sc' = Force(StepRec(InfoCands("C11", "info", pobjs[Ev.obj], Ev.out, << >>), <<"infos">>)) /\ UNCHANGED pobjs /\ Record

(* ---------------------- time sequences and length (C20) --------------- *)
Micro == RPow("10", -6)
SeqCands(ev, start, end, dt, sq) ==
    LET n == Len(sq)
        s == HV(sq)
        big == RMax(RMax(RAbs(start), RAbs(end)), Tiny)
        u4 == RMul("4", RMul(Eps, big))
        info == [start |-> RShow(start), end |-> RShow(end), dt |-> RShow(dt), n |-> n]
        \* the last sample may be the appended end point; every earlier one lies on the grid start + i dt
        ongrid(i) == RLe(RAbs(RSub(s[i], RAdd(start, RMul(RInt(i - 1), dt)))), u4)
    IN IF n = 0 THEN <<Cand("C20", "tseq.empty", FALSE, info)>>
       ELSE <<Cand("C20", "tseq.first", s[1] = start, info),
              Cand("C20", "tseq.step", \A i \in 1..(n - 1) : ongrid(i), info),
              Cand("C20", "tseq.increasing", \A i \in 1..(n - 1) : RLt(s[i], s[i + 1]), info),
              Cand("C20", "tseq.not_beyond", \A i \in 1..n : RLe(s[i], RAdd(end, Micro)), info),
              Cand("C20", "tseq.ends_at_end", RLe(RAbs(RSub(s[n], end)), Micro), info),
              Cand("C20", "tseq.last", ongrid(n) \/ s[n] = end, info),
              Cand("C20", "tseq.no_gap", \A i \in 1..(n - 1) : RLe(RSub(s[i + 1], s[i]), RAdd(dt, u4)), info)>>

SeqKey(o, ev) ==
    LET start == IF Has(ev, "start") THEN H(ev.start) ELSE o.data.bp[1]
        end == IF Has(ev, "end") THEN H(ev.end) ELSE o.data.bp[Len(o.data.bp)]
        dth == IF Has(ev, "dt") THEN ev.dt ELSE "0x1.47ae147ae147bp-7"      \* the default step 0.01
    IN [start |-> start, end |-> end, dth |-> dth, key |-> <<"tseq", start, end, dth>>]
TSeqStep(ev) ==
    LET o == pobjs[ev.obj]
        k == SeqKey(o, ev)
    IN Force([StepRec(SeqCands(ev, k.start, k.end, H(ev.dt), ev.out.seq), <<"tseqs">>) EXCEPT !.memo = MemoPut(memo, k.key, ev.out.seq)])
TrTSeq == IsEvent("tseq") /\ sc' = TSeqStep(Ev) /\ UNCHANGED pobjs /\ Record

\* length = left-endpoint Riemann sum of speed over the generated sequence (square roots bracketed to 30 digits)
LengthStep(ev) ==
    LET o == pobjs[ev.obj]
        k == SeqKey(o, ev)
        have == k.key \in DOMAIN memo
        s == Force(IF have THEN HV(memo[k.key]) ELSE <<>>)
        sp(i) == LET v == EvalAt(o.data.bp, o.data.C, o.nc, s[i], 1)
                     q == RSum([c \in 1..Len(v) |-> RSq(v[c])])
                 IN <<RSqrtLo(q, 30), RSqrtHi(q, 30)>>
        terms == Force([i \in 1..(Len(s) - 1) |-> LET w == RSub(s[i + 1], s[i])  b == sp(i) IN <<RMul(b[1], w), RMul(b[2], w)>>])
        lo == RSum([i \in 1..Len(terms) |-> terms[i][1]])
        hi == RSum([i \in 1..Len(terms) |-> terms[i][2]])
        got == H(ev.out.val)
        tol == RAdd(RMul(RPow("10", -10), hi), RPow("10", -25))
        err == IF RLt(got, lo) THEN RSub(lo, got) ELSE IF RLt(hi, got) THEN RSub(got, hi) ELSE Zero
        info == [n |-> Len(s), got |-> RShow(got), lo |-> RShow(lo)]
        cands == IF have THEN <<CandM("C20", "length.riemann", err, tol, info)>>
                 ELSE <<Cand("INFRA", "length.no_sequence_recorded", FALSE, info)>>
    IN Force(StepRec(cands, <<"lengths">>))
TrLength == IsEvent("length") /\ sc' = LengthStep(Ev) /\ UNCHANGED pobjs /\ Record

TrDestroy == IsEvent("destroy") /\ sc' = Force(StepRec(<<>>, <<"destroys">>)) /\ PDestroy(Ev.obj) /\ Record
TrReset ==
    /\ IsEvent("reset") /\ PReset
    /\ memo' = << >> /\ hints' = << >> /\ datas' = <<>> /\ nexec' = nexec + 1 /\ stats' = Bump(stats, "executions", 1) /\ sc' = << >>
    /\ UNCHANGED <<bad, worst>> /\ Advance
TrNote == IsEvent("note") /\ sc' = Force(StepRec(<<>>, <<"notes">>)) /\ UNCHANGED pobjs /\ Record
Known == {"ctor", "new", "update", "factory", "copy", "assign", "derivative", "eval", "sethint", "eval_hint", "routes", "batch",
          "seg_info", "at", "info", "tseq", "length", "destroy", "reset", "note"}
TrUnknown ==
    /\ l <= Len(Tr) /\ Tr[l].e \notin Known
    /\ bad' = bad \o <<[prop |-> "INFRA", code |-> "unknown.event", info |-> [e |-> Tr[l].e], line |-> l, exec |-> nexec, obj |-> 0]>>
    /\ UNCHANGED <<stats, worst, memo, nexec, hints, pobjs, datas, sc>> /\ Advance

TraceInit == l = 1 /\ bad = <<>> /\ stats = [lines |-> Len(Tr)] /\ worst = << >> /\ memo = << >> /\ nexec = 0 /\ hints = << >> /\ datas = <<>> /\ sc = << >> /\ PInit
TraceNext == TrCtor \/ TrUpdate \/ TrFactory \/ TrCopy \/ TrDerivative \/ TrEval \/ TrSetHint \/ TrEvalHint \/ TrRoutes \/ TrBatch
             \/ TrSegInfo \/ TrAt \/ TrInfo \/ TrTSeq \/ TrLength \/ TrDestroy \/ TrReset \/ TrNote \/ TrUnknown
TraceSpec == TraceInit /\ [][TraceNext]_tvars
TraceInv == PObjInv
Done == l = Len(Tr) + 1
Emit == Done => JsonSerialize(IOEnv.OUT, [bad |-> bad, stats |-> stats, lines |-> Len(Tr), worst |-> [k \in DOMAIN worst |-> RShow(worst[k])]])
TraceAccepted == TLCGet("stats").diameter - 1 = Len(Tr)
=============================================================================
