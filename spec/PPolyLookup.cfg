SPECIFICATION Spec
CONSTANTS
  L = 5
  MaxSeg = 5
  Threshold = 3
  Broken = "none"
INVARIANT LookupCorrect
CHECK_DEADLOCK FALSE
