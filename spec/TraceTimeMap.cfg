SPECIFICATION TraceSpec
CONSTRAINT Emit
POSTCONDITION TraceAccepted
CHECK_DEADLOCK FALSE
