-------------------------------- MODULE TimeSeq --------------------------------
(***************************************************************************)
(* The contract of generateTimeSequence over exact rationals on a lattice: *)
(* n = floor((end - start) / dt) regular samples start + i dt, i = 0..n,   *)
(* plus the end point when the last regular sample falls short of it by    *)
(* more than eps.  TLC checks, for all start <= end and dt > 0 on the      *)
(* lattice (unit 1/Den, eps = one unit/2 plays the role of 1e-6): first =  *)
(* start, constant step, strictly increasing, nothing beyond end + eps,    *)
(* last within eps of end.  The real code is judged against the same       *)
(* contract on its logged bits by TracePPoly!SeqCands.                     *)
(***************************************************************************)
EXTENDS Integers, Sequences

CONSTANTS MaxLen, Broken      \* Broken = "onesided": appends the end only when last < end - eps is replaced by last - end > eps

VARIABLES start, end, dt
vars == <<start, end, dt>>
\* times are integers (lattice units); eps = 0 units strictly between lattice points is modelled by eps = 0 with strict test
Eps == 0

Seq0(s, e, d) ==
    LET n == (e - s) \div d
        reg == [i \in 1..(n + 1) |-> s + (i - 1) * d]
        last == reg[n + 1]
        short == IF Broken = "onesided" THEN last - e > Eps ELSE (IF last > e THEN last - e ELSE e - last) > Eps
    IN IF short THEN Append(reg, e) ELSE reg

Init == start \in -2..2 /\ end \in start..(start + MaxLen) /\ dt \in 1..(MaxLen + 2)
Next == UNCHANGED vars
Spec == Init /\ [][Next]_vars

Contract ==
    LET q == Seq0(start, end, dt)  n == Len(q)
    IN /\ q[1] = start
       /\ \A i \in 1..(n - 1) : q[i] < q[i + 1]
       /\ \A i \in 1..(n - 2) : q[i + 1] - q[i] = dt
       /\ \A i \in 1..(n - 1) : q[i + 1] - q[i] <= dt
       /\ \A i \in 1..n : q[i] <= end + Eps
       /\ (IF q[n] > end THEN q[n] - end ELSE end - q[n]) <= Eps
=============================================================================
