------------------------------ MODULE SplineMath ------------------------------
(***************************************************************************)
(* What a cubic / quintic / septic interpolating spline IS, stated without *)
(* any constant of the implementation.                                     *)
(*                                                                         *)
(* A problem is a record                                                   *)
(*   [s  |-> half order (2 cubic, 3 quintic, 4 septic),                    *)
(*    T  |-> <<T_1..T_N>>   positive segment durations,                    *)
(*    P  |-> <<P_0..P_N>>   waypoints, each a sequence of D rationals,     *)
(*    BS |-> <<start d^1..d^(s-1)>>, BE |-> <<end d^1..d^(s-1)>>  (D each) *)
(*    t0 |-> start time]                                                   *)
(* A coefficient matrix has 2s rows per segment in ascending power of the  *)
(* segment-local time and one column per coordinate - the layout the       *)
(* library publishes.                                                      *)
(*                                                                         *)
(* The spline is the solution of the DEFINING EQUATIONS (interpolation at  *)
(* both ends of every segment, continuity of derivatives 1..2s-2 at        *)
(* interior knots, boundary derivatives 1..s-1 at both ends); SplineMathMC *)
(* checks with TLC that this solution exists, is unique and is first-order *)
(* optimal for the energy among admissible curves, i.e. is the minimiser.  *)
(***************************************************************************)
EXTENDS Numerics

NSeg(pr) == Len(pr.T)
Dim(pr) == Len(pr.P[1])
NCo(s) == 2 * s
NUnk(pr) == 2 * pr.s * NSeg(pr)

(* ---------------------------- knot times ------------------------------ *)
\* Knot(t0, T, i) for i in 0..N : start time plus the first i durations
Knot(t0, T, i) == RAdd(t0, RSum(SubSeq(T, 1, i)))
Knots(t0, T) == Force([j \in 1..(Len(T) + 1) |-> Knot(t0, T, j - 1)])
DursOfPoints(tp) == Force([i \in 1..(Len(tp) - 1) |-> RSub(tp[i + 1], tp[i])])
(* ------------------------ the defining equations ---------------------- *)
\* unknown c[i][k] (segment i in 1..N, power k in 0..2s-1) has index (i-1)*2s + k + 1
\* row that evaluates the d-th derivative of segment i at local time tau
DRow(s, N, i, tau, d) ==
    Force([j \in 1..(2 * s * N) |->
        LET seg == ((j - 1) \div (2 * s)) + 1
            k == (j - 1) - (seg - 1) * 2 * s
        IN IF seg # i \/ k < d THEN Zero
           ELSE RMul(RInt(FF(k, d)), RPow(tau, k - d))])

RowInterpL(s, N, i) == i                          \* i in 1..N : x_i(0)   = P_(i-1)
RowInterpR(s, N, i) == N + i                      \* i in 1..N : x_i(T_i) = P_i
RowBcS(s, N, d) == 2 * N + d                      \* d in 1..s-1 : x_1^(d)(0)   = BS_d
RowBcE(s, N, d) == 2 * N + (s - 1) + d            \* d in 1..s-1 : x_N^(d)(T_N) = BE_d
RowCont(s, N, i, d) == 2 * N + 2 * (s - 1) + (i - 1) * (2 * s - 2) + d
                                                  \* i in 1..N-1, d in 1..2s-2 : x_i^(d)(T_i) = x_(i+1)^(d)(0)

\* shift = 0 gives the system matrix A(T); shift = 1 with "only = i" gives dA/dT_i
SysRow(s, T, r, shift, only) ==
    LET N == Len(T)
        Z == [j \in 1..(2 * s * N) |-> Zero]
        On(i) == only = 0 \/ only = i
    IN IF r <= N THEN (IF shift = 0 THEN DRow(s, N, r, Zero, 0) ELSE Z)
       ELSE IF r <= 2 * N THEN (LET i == r - N IN IF On(i) THEN DRow(s, N, i, T[i], shift) ELSE Z)
       ELSE IF r <= 2 * N + (s - 1) THEN (IF shift = 0 THEN DRow(s, N, 1, Zero, r - 2 * N) ELSE Z)
       ELSE IF r <= 2 * N + 2 * (s - 1)
            THEN (LET d == r - 2 * N - (s - 1) IN IF On(N) THEN DRow(s, N, N, T[N], d + shift) ELSE Z)
       ELSE LET q == r - 2 * N - 2 * (s - 1) - 1
                i == (q \div (2 * s - 2)) + 1
                d == q - (i - 1) * (2 * s - 2) + 1
            IN IF shift = 0 THEN VSub(DRow(s, N, i, T[i], d), DRow(s, N, i + 1, Zero, d))
               ELSE IF On(i) THEN DRow(s, N, i, T[i], d + 1) ELSE Z

DefSystem(s, T) == Force([r \in 1..(2 * s * Len(T)) |-> SysRow(s, T, r, 0, 0)])
DefSystemDT(s, T, i) == Force([r \in 1..(2 * s * Len(T)) |-> SysRow(s, T, r, 1, i)])

\* right-hand side, one column per coordinate
DefRhs(pr) ==
    LET s == pr.s  N == NSeg(pr)  D == Dim(pr)
    IN [r \in 1..(2 * s * N) |->
          IF r <= N THEN pr.P[r]
          ELSE IF r <= 2 * N THEN pr.P[r - N + 1]
          ELSE IF r <= 2 * N + (s - 1) THEN pr.BS[r - 2 * N]
          ELSE IF r <= 2 * N + 2 * (s - 1) THEN pr.BE[r - 2 * N - (s - 1)]
          ELSE [c \in 1..D |-> Zero]]

\* THE spline of a problem: coefficient matrix (2sN x D)
MinCoeffs(pr) == Solve(DefSystem(pr.s, pr.T), DefRhs(pr))

(* --------------------- reading a coefficient matrix ------------------- *)
\* polynomial (ascending powers of local time) of segment i, coordinate col
SegPoly(C, s, i, col) == Force([k \in 1..(2 * s) |-> C[(i - 1) * 2 * s + k][col]])
\* value of the d-th derivative of segment i at local time tau, all coordinates
SegEval(C, s, i, tau, d) == Force([col \in 1..Len(C[1]) |-> PolyEvalD(SegPoly(C, s, i, col), tau, d)])
(* -------- scaled residuals of the defining equations (DESIGN s4) ------ *)
Tiny == RPow("10", -200)
\* position-scale of coordinate col: what rounding errors of a solve are proportional to
PScale(pr, col) ==
    LET N == NSeg(pr)
        Tmax == RMaxSeq(pr.T)
        pm == RMaxSeq([j \in 1..(N + 1) |-> RAbs(pr.P[j][col])])
        bm == RMaxSeq([d \in 1..(pr.s - 1) |->
                 RMul(RMax(RAbs(pr.BS[d][col]), RAbs(pr.BE[d][col])), RPow(Tmax, d))])
    IN RMax(pm, bm)
\* An equation sum(terms) = rhs is summarised by  num = |sum(terms) - rhs|,  den = sum|terms| + |rhs|  (the magnitudes it
\* is assembled from) and  nat = the natural scale of that equation (position scale / duration^d).  Its scaled residual
\* with noise-floor factor phi is  num / max(den, phi * nat):  relative to the equation's own terms, except where these
\* are themselves below phi times the natural scale - i.e. indistinguishable from rounding noise of the solve.
ScaledRes(terms, rhs, nat) ==
    [num |-> RAbs(RSub(RSum(terms), rhs)), den |-> RAdd(RAbsSum(terms), RAbs(rhs)), nat |-> nat]
ResVal(r, phi) == RDiv(r.num, RMax(RMax(r.den, RMul(phi, r.nat)), Tiny))
\* monomials of the d-th derivative of polynomial c at tau
Monos(c, tau, d) == Force([k \in 1..(Len(c) - d) |-> RMul(RMul(RInt(FF(k - 1 + d, d)), c[k + d]), RPow(tau, k - 1))])
ResInterpL(pr, C, i, col, ps) == ScaledRes(<<C[(i - 1) * 2 * pr.s + 1][col]>>, pr.P[i][col], ps[col])
ResInterpR(pr, C, i, col, ps) == ScaledRes(Monos(SegPoly(C, pr.s, i, col), pr.T[i], 0), pr.P[i + 1][col], ps[col])
ResBcS(pr, C, d, col, ps) ==
    ScaledRes(Monos(SegPoly(C, pr.s, 1, col), Zero, d), pr.BS[d][col], RDiv(ps[col], RPow(pr.T[1], d)))
ResBcE(pr, C, d, col, ps) ==
    LET N == NSeg(pr)
    IN ScaledRes(Monos(SegPoly(C, pr.s, N, col), pr.T[N], d), pr.BE[d][col], RDiv(ps[col], RPow(pr.T[N], d)))
ResCont(pr, C, i, d, col, ps) ==
    LET left == Monos(SegPoly(C, pr.s, i, col), pr.T[i], d)
        right == RMul(RInt(Fact(d)), C[i * 2 * pr.s + d + 1][col])
    IN ScaledRes(left \o <<RNeg(right)>>, Zero, RDiv(ps[col], RPow(RMin(pr.T[i], pr.T[i + 1]), d)))

\* every residual of a coefficient matrix, as records [kind, i, d, col, res]
AllResiduals(pr, C) ==
    LET s == pr.s  N == NSeg(pr)  D == Dim(pr)
        ps == Force([col \in 1..D |-> PScale(pr, col)])
        il == [q \in 1..(N * D) |-> LET i == ((q - 1) \div D) + 1  col == q - (i - 1) * D
                 IN [kind |-> "interpL", i |-> i, d |-> 0, col |-> col, res |-> ResInterpL(pr, C, i, col, ps)]]
        ir == [q \in 1..(N * D) |-> LET i == ((q - 1) \div D) + 1  col == q - (i - 1) * D
                 IN [kind |-> "interpR", i |-> i, d |-> 0, col |-> col, res |-> ResInterpR(pr, C, i, col, ps)]]
        bs == [q \in 1..((s - 1) * D) |-> LET d == ((q - 1) \div D) + 1  col == q - (d - 1) * D
                 IN [kind |-> "bcS", i |-> 1, d |-> d, col |-> col, res |-> ResBcS(pr, C, d, col, ps)]]
        be == [q \in 1..((s - 1) * D) |-> LET d == ((q - 1) \div D) + 1  col == q - (d - 1) * D
                 IN [kind |-> "bcE", i |-> N, d |-> d, col |-> col, res |-> ResBcE(pr, C, d, col, ps)]]
        nd == 2 * s - 2
        ct == [q \in 1..((N - 1) * nd * D) |->
                 LET i == ((q - 1) \div (nd * D)) + 1
                     r == (q - 1) - (i - 1) * nd * D
                     d == (r \div D) + 1
                     col == r - (d - 1) * D + 1
                 IN [kind |-> "cont", i |-> i, d |-> d, col |-> col, res |-> ResCont(pr, C, i, d, col, ps)]]
    IN Force(il \o ir \o bs \o be \o ct)

(* -------------------------------- energy ------------------------------ *)
\* integral over the whole duration of the squared s-th derivative, summed over coordinates
SegEnergy(c, s, Ti) == LET q == PolyDeriv(c, s) IN PolyInt(PolyMul(q, q), Ti)
SegEnergyAbs(c, s, Ti) == LET q == PolyDeriv(c, s)  a == [k \in 1..Len(q) |-> RAbs(q[k])] IN PolyInt(PolyMul(a, a), Ti)
Energy(C, s, T) ==
    RSum([q \in 1..(Len(T) * Len(C[1])) |->
            LET D == Len(C[1])  i == ((q - 1) \div D) + 1  col == q - (i - 1) * D
            IN SegEnergy(SegPoly(C, s, i, col), s, T[i])])
EnergyAbs(C, s, T) ==
    RSum([q \in 1..(Len(T) * Len(C[1])) |->
            LET D == Len(C[1])  i == ((q - 1) \div D) + 1  col == q - (i - 1) * D
            IN SegEnergyAbs(SegPoly(C, s, i, col), s, T[i])])
EnergyOfCoord(C, s, T, col) == RSum([i \in 1..Len(T) |-> SegEnergy(SegPoly(C, s, i, col), s, T[i])])

\* partial derivatives of Energy with coefficients resp. durations held fixed
\* dE/dc[i][k] = 2 * integral( q(t) * ff(k,s) t^(k-s) ),  dE/dT_i = |x_i^(s)(T_i)|^2
EnergyPartialC(C, s, T) ==
    Force([r \in 1..Len(C) |-> [col \in 1..Len(C[1]) |->
        LET i == ((r - 1) \div (2 * s)) + 1
            k == (r - 1) - (i - 1) * 2 * s
            q == PolyDeriv(SegPoly(C, s, i, col), s)
            mono == [j \in 1..(k - s + 1) |-> IF j = k - s + 1 THEN RInt(FF(k, s)) ELSE Zero]
        IN IF k < s THEN Zero ELSE RMul("2", PolyInt(PolyMul(q, mono), T[i]))]])
EnergyPartialT(C, s, T) ==
    Force([i \in 1..Len(T) |-> RSum([col \in 1..Len(C[1]) |-> RSq(PolyEvalD(SegPoly(C, s, i, col), T[i], s))])])

(* -------- adjoint of the construction map (implicit differentiation) -- *)
(* Inputs (P, T, BS, BE) -> (coefficients C, durations T).  For an upstream *)
(* gradient (gC: 2sN x D, gT: N) the transpose-Jacobian product is, with   *)
(* lambda = A^-T gC :  dP_j = lambda at the rows where P_j is the rhs,     *)
(* dBS_d, dBE_d likewise, dT_i = gT_i - sum_col lambda_col . (dA/dT_i) C_col *)
(***************************************************************************)
Adjoint(pr, C, gC, gT) ==
    LET s == pr.s  N == NSeg(pr)  D == Dim(pr)
        A == Force(DefSystem(s, pr.T))
        lam == Force(Solve(Transpose(A), gC))
        gradP == [j \in 1..(N + 1) |-> [col \in 1..D |->
                    RAdd(IF j <= N THEN lam[RowInterpL(s, N, j)][col] ELSE Zero,
                         IF j >= 2 THEN lam[RowInterpR(s, N, j - 1)][col] ELSE Zero)]]
        gradT == [i \in 1..N |->
                    LET dAC == Force(MatMul(DefSystemDT(s, pr.T, i), C))
                    IN RSub(gT[i], RSum([col \in 1..D |-> RDot(Col(lam, col), Col(dAC, col))]))]
    IN Force([points |-> gradP,
        times |-> gradT,
        bs |-> [d \in 1..(s - 1) |-> lam[RowBcS(s, N, d)]],
        be |-> [d \in 1..(s - 1) |-> lam[RowBcE(s, N, d)]]])

(***************************************************************************)
(* The same adjoint together with S = sum_j |J_jk| |g_j|, the magnitude    *)
(* each result is assembled from (DESIGN s4, gradient tolerance).  Uses    *)
(* the explicit inverse: lambda = A^-T gC, lambdaAbs = |A^-1|^T |gC|.      *)
(***************************************************************************)
MAbs(M) == Force([i \in 1..Len(M) |-> [j \in 1..Len(M[i]) |-> RAbs(M[i][j])]])
Identity(n) == Force([i \in 1..n |-> VUnit(n, i)])
\* the parts that depend on the problem only (computed once per build, reused by every propagation)
AdjointPre(pr) ==
    LET s == pr.s  N == NSeg(pr)  n == 2 * s * N
        A == Force(DefSystem(s, pr.T))
        Ainv == Force(Solve(A, Identity(n)))
        C == Force(MatMul(Ainv, DefRhs(pr)))
        Cabs == Force(MAbs(C))
    IN Force([AinvT |-> Force(Transpose(Ainv)), AinvTa |-> Force(MAbs(Transpose(Ainv))), C |-> C,
        dAC |-> Force([i \in 1..N |-> MatMul(DefSystemDT(s, pr.T, i), C)]),
        dACa |-> Force([i \in 1..N |-> MatMul(MAbs(DefSystemDT(s, pr.T, i)), Cabs)])])
AdjointWith(pr, pre, gC0, gT0) ==
    LET gC == Force(gC0)  gT == Force(gT0)       \* (operator arguments are passed by name: force them once)
        s == pr.s  N == NSeg(pr)  D == Dim(pr)
        lam == Force(MatMul(pre.AinvT, gC))
        lamA == Force(MatMul(pre.AinvTa, MAbs(gC)))
        pt(L, j, col) == RAdd(IF j <= N THEN L[RowInterpL(s, N, j)][col] ELSE Zero,
                              IF j >= 2 THEN L[RowInterpR(s, N, j - 1)][col] ELSE Zero)
        tm(i) == [val |-> RSub(gT[i], RSum([col \in 1..D |-> RDot(Col(lam, col), Col(pre.dAC[i], col))])),
                  mag |-> RAdd(RAbs(gT[i]), RSum([col \in 1..D |-> RDot(Col(lamA, col), Col(pre.dACa[i], col))]))]
        tms == Force([i \in 1..N |-> tm(i)])
        \* natural scales (floors for S where the exact Jacobian is structurally zero but the result is assembled from
        \* cancelling terms): a coefficient c_k has units position / time^k
        Tmin == LET F[i \in 0..N] == IF i = 0 THEN pr.T[1] ELSE RMin(F[i - 1], pr.T[i]) IN F[N]
        Tmax == RMaxSeq(pr.T)
        kOf(r) == (r - 1) - ((r - 1) \div (2 * s)) * 2 * s
        wC(col, e) == RSum([r \in 1..Len(gC) |-> RMul(RAbs(gC[r][col]), RPow(Tmin, -(kOf(r) + e)))])    \* sum |g| / Tmin^(k+e)
        natP == Force([col \in 1..D |-> wC(col, 0)])
        natT == Force(RSum([col \in 1..D |-> RMul(PScale(pr, col), wC(col, 1))]))
        Phi == RPow("10", -6)
        fl(S, nat) == RMax(S, RMul(Phi, nat))
    IN Force([points |-> [j \in 1..(N + 1) |-> [col \in 1..D |-> pt(lam, j, col)]],
        pointsS |-> [j \in 1..(N + 1) |-> [col \in 1..D |-> fl(pt(lamA, j, col), natP[col])]],
        times |-> [i \in 1..N |-> tms[i].val],
        timesS |-> [i \in 1..N |-> fl(tms[i].mag, RAdd(RAbs(gT[i]), natT))],
        bs |-> [d \in 1..(s - 1) |-> lam[RowBcS(s, N, d)]],
        bsS |-> [d \in 1..(s - 1) |-> [col \in 1..D |-> fl(lamA[RowBcS(s, N, d)][col], RMul(natP[col], RPow(Tmax, d)))]],
        be |-> [d \in 1..(s - 1) |-> lam[RowBcE(s, N, d)]],
        beS |-> [d \in 1..(s - 1) |-> [col \in 1..D |-> fl(lamA[RowBcE(s, N, d)][col], RMul(natP[col], RPow(Tmax, d)))]]])
AdjointS(pr, C, gC, gT) == AdjointWith(pr, AdjointPre(pr), gC, gT)

\* magnitudes the energy partials are assembled from (same formulas on absolute values)
EnergyPartialCAbs(C, s, T) ==
    Force([r \in 1..Len(C) |-> [col \in 1..Len(C[1]) |->
        LET i == ((r - 1) \div (2 * s)) + 1
            k == (r - 1) - (i - 1) * 2 * s
            q == PolyDeriv(SegPoly(C, s, i, col), s)
            qa == [j \in 1..Len(q) |-> RAbs(q[j])]
            mono == [j \in 1..(k - s + 1) |-> IF j = k - s + 1 THEN RInt(FF(k, s)) ELSE Zero]
        IN IF k < s THEN Zero ELSE RMul("2", PolyInt(PolyMul(qa, mono), T[i]))]])
EnergyPartialTAbs(C, s, T) ==
    Force([i \in 1..Len(T) |-> RSum([col \in 1..Len(C[1]) |-> RSq(PolyAbsEval(PolyDeriv(SegPoly(C, s, i, col), s), T[i]))])])

\* total derivative of the energy w.r.t. the inputs
EnergyGrad(pr, C) == Adjoint(pr, C, EnergyPartialC(C, pr.s, pr.T), EnergyPartialT(C, pr.s, pr.T))

(* -------------------- the transformations of C14 ---------------------- *)
Shift(pr, dt) == [pr EXCEPT !.t0 = RAdd(@, dt)]
Translate(pr, v) == [pr EXCEPT !.P = [j \in 1..Len(pr.P) |-> VAdd(pr.P[j], v)]]
ScaleSpace(pr, a) == [pr EXCEPT !.P = [j \in 1..Len(pr.P) |-> VScale(a, pr.P[j])],
                                !.BS = [d \in 1..Len(pr.BS) |-> VScale(a, pr.BS[d])],
                                !.BE = [d \in 1..Len(pr.BE) |-> VScale(a, pr.BE[d])]]
\* durations times a; d-th boundary derivative divided by a^d: the same curve traversed a times slower
ScaleTime(pr, a) == [pr EXCEPT !.T = VScale(a, pr.T),
                               !.BS = [d \in 1..Len(pr.BS) |-> VScale(RPow(a, -d), pr.BS[d])],
                               !.BE = [d \in 1..Len(pr.BE) |-> VScale(RPow(a, -d), pr.BE[d])]]
Rev(q) == Force([i \in 1..Len(q) |-> q[Len(q) + 1 - i]])
ReverseProblem(pr) == [pr EXCEPT !.T = Rev(pr.T), !.P = Rev(pr.P),
                          !.BS = [d \in 1..Len(pr.BE) |-> VScale(RPow("-1", d), pr.BE[d])],
                          !.BE = [d \in 1..Len(pr.BS) |-> VScale(RPow("-1", d), pr.BS[d])]]
\* coefficients of t |-> x(T_i - t) segment-wise, segments in reverse order: the time-reversed trajectory
ReversePoly(c, Ti) ==
    \* (forced below) c(Ti - t) = sum_k c_k (Ti - t)^k ; coefficient of t^m is (-1)^m sum_{k>=m} c_k C(k,m) Ti^(k-m)
    [m1 \in 1..Len(c) |->
        LET m == m1 - 1
        IN RMul(RPow("-1", m),
                RSum([k1 \in 1..(Len(c) - m) |->
                        LET k == m + k1 - 1
                        IN RMul(RMul(c[k + 1], RFrac(FF(k, m), Fact(m))), RPow(Ti, k - m))]))]
ReverseCoeffs(C, s, T) ==
    LET N == Len(T)
    IN Force([r \in 1..Len(C) |-> [col \in 1..Len(C[1]) |->
          LET i == ((r - 1) \div (2 * s)) + 1
              k == (r - 1) - (i - 1) * 2 * s
              src == N + 1 - i
          IN ReversePoly(SegPoly(C, s, src, col), T[src])[k + 1]]])
=============================================================================
