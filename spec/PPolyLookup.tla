------------------------------ MODULE PPolyLookup ------------------------------
(***************************************************************************)
(* The segment lookup of PPolyND, transcribed step by step from            *)
(* findSegment(t) and findSegment(t, hint) (clamp; linear scan below a     *)
(* threshold; std::upper_bound above it; the three-way hinted search), and *)
(* checked by TLC against the DEFINITION of the piece - the half-open      *)
(* interval [b_i, b_i+1) containing t, first piece before b_0, last piece  *)
(* at or after b_n - for ALL breakpoint vectors on a lattice, ALL times    *)
(* on / between / outside the breakpoints, ALL hint values and ALL         *)
(* sequences of hinted calls (the hint is state).  The code's threshold 32 *)
(* is the constant Threshold (set to 3 so both search paths are covered).  *)
(***************************************************************************)
EXTENDS Integers, Sequences, FiniteSets

CONSTANTS L,            \* breakpoints are distinct even numbers in 0..2L; times are all integers in -2..2L+2
          MaxSeg,       \* at most this many segments
          Threshold,    \* linear scan iff nseg < Threshold
          Broken        \* "none" | "le" | "ub" | "nohint" : deliberately wrong transcriptions TLC must reject

VARIABLES bp, hint, ok, lastT
vars == <<bp, hint, ok, lastT>>

\* ---- definition (1-based piece index) ----
PieceDef(b, t) ==
    LET n == Len(b) - 1
    IN IF t < b[1] THEN 1 ELSE IF t >= b[n + 1] THEN n ELSE CHOOSE i \in 1..n : b[i] <= t /\ t < b[i + 1]

\* ---- transcription (0-based indices, as in the code; b[j+1] is breakpoints_[j]) ----
RECURSIVE UpperBound(_, _, _, _)
UpperBound(b, t, first, count) ==            \* std::upper_bound: first index whose element is > t
    IF count <= 0 THEN first
    ELSE LET step == count \div 2
             it == first + step
         IN IF ~(t < b[it + 1]) THEN UpperBound(b, t, it + 1, count - step - 1)
            ELSE UpperBound(b, t, first, step)

FindSegment(b, t) ==
    LET nseg == Len(b) - 1
    IN IF nseg = 0 THEN 0
       ELSE IF t <= b[1] THEN 0
       ELSE IF t >= b[nseg + 1] THEN nseg - 1
       ELSE IF nseg < Threshold
            THEN (IF \E i \in 0..(nseg - 1) : t < b[i + 2]
                  THEN CHOOSE i \in 0..(nseg - 1) : t < b[i + 2] /\ \A j \in 0..(i - 1) : ~(t < b[j + 2])
                  ELSE nseg - 1)
       ELSE (IF Broken = "ub" THEN UpperBound(b, t, 0, Len(b)) ELSE UpperBound(b, t, 0, Len(b)) - 1)

\* returns <<segment used, new hint>>
FindSegmentHint(b, t, h) ==
    LET nseg == Len(b) - 1
        inside(i) == IF Broken = "le" THEN t >= b[i + 1] /\ t <= b[i + 2] ELSE t >= b[i + 1] /\ t < b[i + 2]
    IN IF h >= 0 /\ h < nseg /\ inside(h) THEN <<h, h>>
       ELSE IF h >= 0 /\ h < nseg /\ h + 1 < nseg /\ inside(h + 1) THEN <<h + 1, h + 1>>
       ELSE LET f == FindSegment(b, t) IN <<f, IF Broken = "nohint" THEN h ELSE f>>

\* ---- exhaustive exploration ----
Points == {2 * i : i \in 0..L}
Times == -2..(2 * L + 2)
IsIncreasing(b) == \A i \in 1..(Len(b) - 1) : b[i] < b[i + 1]
RECURSIVE SortSet(_)
SortSet(S) == IF S = {} THEN <<>> ELSE LET m == CHOOSE x \in S : \A y \in S : x <= y IN <<m>> \o SortSet(S \ {m})
AllBp == {SortSet(S) : S \in {S2 \in SUBSET Points : Cardinality(S2) \in 2..(MaxSeg + 1)}}
Hints(b) == -2..(Len(b) + 1)

Init == bp \in AllBp /\ hint \in Hints(bp) /\ ok = TRUE /\ lastT = 0
Next == \E t \in Times :
            LET r == FindSegmentHint(bp, t, hint)
            IN /\ hint' = r[2]
               /\ ok' = (r[1] = PieceDef(bp, t) - 1 /\ r[2] = r[1] /\ FindSegment(bp, t) = PieceDef(bp, t) - 1)
               /\ lastT' = t
               /\ UNCHANGED bp
Spec == Init /\ [][Next]_vars

\* the piece used is the defined one, the hint afterwards names it, and the plain lookup agrees
LookupCorrect == ok
=============================================================================
