------------------------------- MODULE MCTimeMap -------------------------------
(* TLC theorems about TimeMap on a rational lattice (C17): positivity, strict      *)
(* monotonicity, C^2 continuity at the branch point, the backward rule, the inverse. *)
EXTENDS TimeMap, Integers, FiniteSets

CONSTANTS Num, Den, Broken      \* lattice: tau = n / d, n in -Num..Num, d in Den
VARIABLE tau
Init == \E n \in -Num..Num, d \in Den : tau = RFrac(n, d)
Next == UNCHANGED tau
Spec == Init /\ [][Next]_tau

\* the deliberately wrong map of the broken twin: negative branch uses the positive formula's derivative
D(t) == IF Broken = "negderiv" /\ ~RLt(Zero, t) THEN RAdd(t, One) ELSE DToTime(t)

Positive == RLt(Zero, ToTime(tau))
\* strictly increasing: against every other lattice point
Increasing == \A n \in -Num..Num, d \in Den : LET u == RFrac(n, d) IN RLt(tau, u) => RLt(ToTime(tau), ToTime(u))
\* derivative positive, and equal to the exact symmetric difference quotient's limit: checked through the polynomial identities
\*   tau > 0 :  T(tau+h) - T(tau-h) = 2h (tau + 1)                       (exact for a quadratic)
\*   tau < 0 :  1/T is the quadratic N(tau); (1/T)' = tau - 1 and T' = -N'/N^2
DerivOK ==
    /\ RLt(Zero, D(tau))
    /\ (RLt(Zero, tau) =>
          LET h == RMin("1/7", tau) IN RSub(PosBranch(RAdd(tau, h)), PosBranch(RSub(tau, h))) = RMul(RMul("2", h), D(tau)))
    /\ (~RLt(Zero, tau) =>
          LET h == "1/7" IN /\ RSub(NegDen(RAdd(tau, h)), NegDen(RSub(tau, h))) = RMul(RMul("2", h), RSub(tau, One))
                            /\ D(tau) = RDiv(RNeg(RSub(tau, One)), RSq(NegDen(tau))))
\* value, first and second derivative agree from both sides at the switch point
SmoothAtSwitch ==
    /\ PosBranch(Zero) = One /\ RDiv(One, NegDen(Zero)) = One
    /\ RAdd(Zero, One) = RDiv(RSub(One, Zero), RSq(NegDen(Zero)))
    /\ DDToTime(Zero) = One
\* the inverse's radicand is a perfect square of the right affine function of tau: toTau(ToTime(tau)) = tau
InverseOK ==
    LET T == ToTime(tau)
    IN IF RLt(Zero, tau) THEN RLt(One, T) /\ InvRadicand(T) = RSq(RAdd(tau, One))
       ELSE RLe(T, One) /\ InvRadicand(T) = RSq(RSub(One, tau))
BackwardOK == \A g \in {"-3", "0", "5/2"} : Backward(tau, g) = RMul(g, D(tau))
=============================================================================
