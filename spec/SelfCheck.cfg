SPECIFICATION Spec
CONSTANTS
  Dim = 4
  Broken = "none"
INVARIANT Inv
CHECK_DEADLOCK FALSE
